(* C06, part 2 - method dispatch and the endpoint of the data connection, over the protocol model. *)
From LibFtp Require Import Bytes Decimal Reply Endpoint Ascii DataConn DataConn_Proofs Client Client_Proofs Login_Proofs Transfer_Proofs Transfer_More Dispatch_Global.
Local Open Scope N_scope.

(* the method is selected by transfer mode and RFC 2428 setting; passive: parse, then connect, then the transfer
   command; active: listen first, then advertise (EPRT / PORT built from the listening socket), then the transfer
   command, then accept - one data_connection object per call. The program itself is stated in
   C11_data_handshake_position (Properties_C11.v); here: which set-up command each method sends. *)
Definition setup_line (cfg : config) (ip6 : bool) : option bytes :=
  match c_mode cfg, c_rfc2428 cfg with
  | Passive, true => Some EPSV_
  | Passive, false => Some PASV_
  | Active, true => Some (make_eprt_command (if ip6 then V6 [58; 58; 49] else V4 127 0 0 1) canon_port)
  | Active, false => make_port_command (if ip6 then V6 [58; 58; 49] else V4 127 0 0 1) canon_port
  end.

Theorem C06_method_by_configuration : forall verb arg acc k_ok k_none w,
  exists k, run (create_data_connection verb arg acc k_ok k_none) w =
  match c_mode (w_cfg w), c_rfc2428 (w_cfg w) with
  | Passive, true => run (Send EPSV_ None k) w
  | Passive, false => run (Send PASV_ None k) w
  | Active, true => run (IsOpen (fun b => if negb b then Throw else DNew (DListenP (SendAdv AdvEprt k)))) w
  | Active, false => run (IsOpen (fun b => if negb b then Throw else DNew (DListenP (SendAdv AdvPort k)))) w
  end.
Proof.
  intros. unfold create_data_connection. rewrite run_getcfg.
  destruct (c_mode (w_cfg w)), (c_rfc2428 (w_cfg w)); eexists; reflexivity.
Qed.
Print Assumptions C06_method_by_configuration.

(* after EPSV: connect to the control connection's peer at exactly the port the 229 parser returns (C06_epsv_iff
   says which port that is); a reply the parser rejects is reported as an error and nothing is connected to *)
Theorem C06_epsv_connects_to_parsed : forall verb arg acc k_ok k_none w r rest x,
  ready w -> w_pending w = [] -> w_cur w = r :: rest -> simple_reaction r x -> is_negative x = false ->
  c_mode (w_cfg w) = Passive -> c_rfc2428 (w_cfg w) = true ->
  match try_parse_epsv_reply (text x) with
  | Some port =>
      dp_reachable (r_data r) = true ->
      exists w2 K, run (create_data_connection verb arg acc k_ok k_none) w = run K w2 /\
        data_events (skipn (length (w_trace w)) (w_trace w2)) = [DNewObj; DConnectTo None port true]
  | None =>
      exists w2, run (create_data_connection verb arg acc k_ok k_none) w = (OThrow, w2) /\
        data_events (skipn (length (w_trace w)) (w_trace w2)) = []
  end.
Proof. exact epsv_connects_to_parsed. Qed.
Print Assumptions C06_epsv_connects_to_parsed.

(* what is advertised in active mode is the listening endpoint: the command is built by the formatters of
   Endpoint.v (C06_port_roundtrip, C06_eprt_wellformed) from the local address of the control connection and the
   port of the listening socket; PORT on an IPv6 control connection is refused before anything is sent *)
Theorem C06_port_refused_on_ipv6 : forall k w, w_cur6 w = true -> run (SendAdv AdvPort k) w = (OThrow, w).
Proof. intros k w H. cbn [run]. unfold local_ip. rewrite H. reflexivity. Qed.
Print Assumptions C06_port_refused_on_ipv6.

(* PARTIAL: that the socket the peer reaches at the advertised endpoint is the client's listening socket, and that
   the passive connection arrives at the announced port from the client's address, is observed by the scripted
   peer in all eight combinations passive/active x RFC 2428 on/off x IPv4/IPv6 (oracle_endpoints). *)

(* active modes (EPRT / PORT by the RFC 2428 flag): the client listens, advertises its endpoint with the one prescribed command, sends the transfer command and accepts exactly one connection; the listener is closed with the data socket *)
Theorem C06_active_listens_and_accepts : forall w path r1 r2 rest x1 x2 x3 line,
  insync w (r1 :: r2 :: rest) -> w_data w = None ->
  c_mode (w_cfg w) = Active -> c_tls (w_cfg w) = false ->
  has_crlf path = false -> adv_cmd w = Some line ->
  simple_reaction r1 x1 -> is_negative x1 = false ->
  accepts_transfer r2 x2 x3 -> dp_reachable (r_data r2) = true -> dp_end (r_data r2) = DEof ->
  exists w', step w (ADownload path None None) = (OReturn (RvReplies [x1; x2; x3]), w') /\
    insync w' rest /\ w_data w' = None /\ w_cfg w' = w_cfg w /\
    sink_bytes (io_events (skipn (length (w_trace w)) (w_trace w'))) = delivered (c_type (w_cfg w)) (concat (dp_segs (r_data r2))) /\
    wire_events (skipn (length (w_trace w)) (w_trace w')) =
      [WLine line; WReply x1; WLine (RETR_ ++ SP :: path); WReply x2; WReply x3] /\
    data_events (skipn (length (w_trace w)) (w_trace w')) =
      [DNewObj; DListen; DAcceptOk; DTcpShutdown; DClose; DAccClose].
Proof. exact download_active_complete. Qed.
Print Assumptions C06_active_listens_and_accepts.

(* ------------------------------------------------------------------ every call, every state, every server *)
(* [okev m r e]: if the event e is a command line on the wire, it is allowed under the configuration (m, r): the bare line
   EPSV only for passive + RFC 2428, PASV only for passive without, a line starting "EPRT " only for active + RFC 2428,
   one starting "PORT " only for active without. The command a call writes to set up its data connection is the one the
   configuration at the time of the call prescribes - whatever the address family of the control connection, the replies
   of the server and the history of the session (the raw command interface with the caller's own verb excepted). *)
Theorem C06_method_by_configuration_every_call : forall a w, not_raw_setup a ->
  exists tr, w_trace (snd (step w a)) = w_trace w ++ tr /\
    Forall (okev (c_mode (w_cfg w)) (c_rfc2428 (w_cfg w))) tr.
Proof. exact step_method_by_configuration. Qed.
Print Assumptions C06_method_by_configuration_every_call.

Example C06_dispatch_example :
  first_setup Passive true = [EPSV_] /\ first_setup Passive false = [PASV_] /\
  first_setup Active true = [EPRT_] /\ first_setup Active false = [PORT_].
Proof. exact dispatch_example. Qed.

(* ---- where data connections go, over every call, every state, every server (Endpoint_Global.v) ---- *)
From LibFtp Require Endpoint_Global.

(* what a call adds to the trace opens a data connection only towards the endpoint named by the reply the call read last: a
   positive reply in which the 229 parser finds exactly that port (no address: the control connection's peer) or the 227
   parser exactly that address and port *)
Theorem C06_connects_where_the_reply_says : forall a w,
  exists tr, w_trace (snd (step w a)) = w_trace w ++ tr /\ Endpoint_Global.okhs None tr.
Proof. exact Endpoint_Global.step_connects_where_the_reply_says. Qed.
Print Assumptions C06_connects_where_the_reply_says.

Theorem C06_connect_follows_the_reply_naming_it : forall a w tr pre ip port ok post,
  w_trace (snd (step w a)) = w_trace w ++ tr -> tr = pre ++ EData (DConnectTo ip port ok) :: post ->
  exists r, Endpoint_Global.hsafter None pre = Some r /\
    is_negative r = false /\
    match ip with
    | None => try_parse_epsv_reply (text r) = Some port
    | Some a => try_parse_pasv_reply (text r) = Some (a, port)
    end.
Proof. exact Endpoint_Global.connect_follows_the_reply_naming_it. Qed.
Print Assumptions C06_connect_follows_the_reply_naming_it.

Example C06_example_connects_where_the_227_says :
  let w0 := init_world (mkConfig Passive false TBinary false false) Endpoint_Global.endpoint_script in
  let tr := w_trace (snd (steps w0 [AConnect [104] 21 None; ADownload [102] None None])) in
  filter (fun e => match e with EData (DConnectTo _ _ _) => true | _ => false end) tr
    = [EData (DConnectTo (Some [49;48;46;49;46;50;46;51]) 1029 true)].
Proof. exact Endpoint_Global.endpoint_example. Qed.
