From LibFtp Require Import Bytes Decimal Decimal_Proofs Reply Framing FramingSpec.
Local Open Scope N_scope.

Ltac split3 := split; [|split].

(* ------------------------------------------------------------------ clean texts *)
Lemma clean_cons c t : clean (c :: t) = true <-> c <> CR /\ c <> LF /\ clean t = true.
Proof.
  unfold clean, mem. cbn [existsb].
  destruct (N.eqb_spec CR c) as [E1|E1], (N.eqb_spec LF c) as [E2|E2]; cbn [orb negb andb];
    rewrite ?andb_false_r.
  - split; [discriminate|]. intros (A & _). congruence.
  - split; [discriminate|]. intros (A & _). congruence.
  - split; [discriminate|]. intros (_ & A & _). congruence.
  - split.
    + intro H. split3; [congruence|congruence|exact H].
    + intros (_ & _ & H). exact H.
Qed.

Lemma clean_app a b : clean (a ++ b) = clean a && clean b.
Proof.
  unfold clean. rewrite !mem_app. destruct (mem CR a), (mem LF a), (mem CR b), (mem LF b); reflexivity.
Qed.

Lemma term_not_nil t : term_bytes t <> [].
Proof. destruct t; discriminate. Qed.

(* ------------------------------------------------------------------ match_eol *)
(* the buffer holds the whole next line: full match at its end, whatever follows *)
Lemma find_eol_complete strict l t more pos : clean l = true ->
  find_eol strict (l ++ term_bytes t ++ more) pos = Some (pos + length (l ++ term_bytes t))%nat.
Proof.
  revert pos; induction l as [|c l IH]; intros pos Hc.
  - destruct t; cbn.
    + f_equal. lia.
    + f_equal. lia.
  - apply clean_cons in Hc as (H1 & H2 & H3). cbn [app find_eol].
    apply N.eqb_neq in H1, H2. rewrite H1, H2. rewrite IH by exact H3.
    f_equal. cbn [length]. lia.
Qed.

(* the buffer holds only a proper prefix of the next line: keep reading (with the trailing-CR rule) *)
Lemma find_eol_prefix l t p q pos : clean l = true -> p ++ q = l ++ term_bytes t -> q <> [] ->
  find_eol true p pos = None.
Proof.
  revert p pos; induction l as [|c l IH]; intros p pos Hc E Hq.
  - destruct t; cbn in E.
    + destruct p as [|x [|y p]]; [reflexivity| |].
      * inversion E; subst. reflexivity.
      * inversion E. subst. destruct p; [|discriminate]. cbn in *. subst. congruence.
    + destruct p as [|x p]; [reflexivity|]. inversion E. destruct p; [|discriminate]. cbn in *; subst; congruence.
  - apply clean_cons in Hc as (H1 & H2 & H3). destruct p as [|x p]; [reflexivity|].
    cbn in E. inversion E; subst x. cbn [find_eol].
    apply N.eqb_neq in H1, H2. rewrite H1, H2. eapply IH; eauto.
Qed.

Lemma prefix_cases {A} (a b c d : list A) : a ++ b = c ++ d ->
  (exists x, c = a ++ x /\ b = x ++ d) \/ (exists x, x <> [] /\ a = c ++ x /\ d = x ++ b).
Proof.
  revert c; induction a as [|u a IH]; intros c E.
  - left. exists c. auto.
  - destruct c as [|v c].
    + right. exists (u :: a). cbn in *. split; [discriminate|auto].
    + cbn in E. inversion E; subst. destruct (IH c H1) as [(x & -> & ->)|(x & Hx & -> & ->)].
      * left. exists x. auto.
      * right. exists x. auto.
Qed.

(* ------------------------------------------------------------------ read_some *)
Lemma read_some_data t max : unread t <> [] -> (1 <= max)%nat ->
  exists d t', read_some t max = (RdData d, t') /\ d <> [] /\ unread t = d ++ unread t' /\
               (length d <= max)%nat /\ tend t' = tend t.
Proof.
  intros Hu Hm. unfold read_some. destruct (unread t) as [|x u] eqn:U; [congruence|].
  set (want := match sched t with [] => max | k :: _ => Nat.min max (Nat.max 1 k) end).
  set (k := Nat.max 1 want).
  assert (Hk : (1 <= k <= max)%nat).
  { unfold k, want. destruct (sched t); lia. }
  eexists. eexists. split; [reflexivity|]. cbn [unread tend].
  split3; [|symmetry; apply firstn_skipn|split; [|reflexivity]].
  - destruct k; [lia|]. discriminate.
  - rewrite firstn_length. pose proof (Nat.le_min_l k (length (x :: u))). clearbody k. lia.
Qed.

(* ------------------------------------------------------------------ read_until frames a line *)
(* [ln] = the complete next line including its terminator *)
Definition is_line (ln : bytes) : Prop :=
  (forall strict more pos, find_eol strict (ln ++ more) pos = Some (pos + length ln)%nat) /\
  (forall p q pos, p ++ q = ln -> q <> [] -> find_eol true p pos = None).

Lemma wline_is_line l tm : clean l = true -> is_line (l ++ term_bytes tm).
Proof.
  intro Hc. split.
  - intros strict more pos. rewrite <- app_assoc. apply find_eol_complete. exact Hc.
  - intros p q pos E Hq. eapply find_eol_prefix; eauto.
Qed.

Lemma read_until_frames c : strict_cr c = true ->
  forall fuel buf t ln rest,
  buf ++ unread t = ln ++ rest -> is_line ln ->
  (length ln <= maxb c)%nat -> (length (unread t) <= fuel)%nat ->
  exists buf' t',
    read_until fuel c buf t = (RuLine (length ln), buf', t') /\
    buf' ++ unread t' = ln ++ rest /\
    (length ln <= length buf')%nat /\ tend t' = tend t.
Proof.
  intros Hs fuel. induction fuel as [|f IH]; intros buf t ln rest E (P1 & P2) Hm Hf.
  - (* nothing left to read: the buffer already holds the stream *)
    assert (U : unread t = []) by (destruct (unread t); [reflexivity|cbn in Hf; lia]).
    rewrite U, app_nil_r in E. subst buf. cbn [read_until]. rewrite P1. cbn [Nat.add].
    exists (ln ++ rest), t. rewrite U, app_nil_r. split3; auto. split; auto. rewrite app_length. lia.
  - destruct (prefix_cases _ _ _ _ E) as [(x & Ex & Eu)|(x & Hx & Eb & Er)].
    + destruct x as [|x0 x].
      * (* the buffer is exactly the line *)
        rewrite app_nil_r in Ex. subst buf. cbn [read_until].
        pose proof (P1 (strict_cr c) [] 0%nat) as F. rewrite app_nil_r in F. rewrite F. cbn [Nat.add].
        exists ln, t. split3; auto.
      * (* proper prefix: read on *)
        cbn [read_until]. rewrite Hs.
        rewrite (P2 buf (x0 :: x) 0%nat (eq_sym Ex)) by discriminate.
        assert (Lb : (length buf < maxb c)%nat).
        { rewrite Ex, app_length in Hm. cbn in Hm. lia. }
        destruct (Nat.leb_spec (maxb c) (length buf)); [lia|].
        assert (Hu : unread t <> []) by (rewrite Eu; discriminate).
        destruct (read_some_data t (maxb c - length buf) Hu ltac:(lia)) as (d & t' & R & Hd & Ud & Ld & Et).
        rewrite R.
        assert (E' : (buf ++ d) ++ unread t' = ln ++ rest).
        { rewrite <- app_assoc, <- Ud. exact E. }
        assert (Hf' : (length (unread t') <= f)%nat).
        { rewrite Ud, app_length in Hf. destruct d; [congruence|]. cbn in Hf. lia. }
        destruct (IH (buf ++ d) t' ln rest E' (conj P1 P2) Hm Hf') as (buf' & t'' & RU & A & B & C).
        exists buf', t''. rewrite RU. split3; auto. split; auto. congruence.
    + (* the buffer already holds the whole line and more *)
      subst buf. cbn [read_until]. rewrite P1. cbn [Nat.add].
      exists (ln ++ x), t. split3; auto. split; auto. rewrite app_length. lia.
Qed.

Lemma take_line {A} (a b ln rest : list A) : a ++ b = ln ++ rest -> (length ln <= length a)%nat ->
  firstn (length ln) a = ln /\ skipn (length ln) a ++ b = rest.
Proof.
  intros E L. destruct (prefix_cases _ _ _ _ E) as [(x & Ex & Eu)|(x & Hx & Eb & Er)].
  - assert (x = []) as -> by (rewrite Ex, app_length in L; destruct x; [reflexivity|cbn in L; lia]).
    rewrite app_nil_r in Ex. subst ln. rewrite firstn_all, skipn_all. auto.
  - subst a rest. rewrite firstn_app, firstn_all, Nat.sub_diag, skipn_app, skipn_all, Nat.sub_diag.
    cbn. rewrite app_nil_r. auto.
Qed.

Lemma read_line_frames c s ln rest : strict_cr c = true ->
  buffer s ++ unread (tr s) = ln ++ rest -> is_line ln -> (length ln <= maxb c)%nat ->
  exists s', read_line c s = (Ok ln, s') /\ buffer s' ++ unread (tr s') = rest /\
             tend (tr s') = tend (tr s).
Proof.
  intros Hs E IL Hm. unfold read_line.
  destruct (read_until_frames c Hs (S (length (unread (tr s)))) (buffer s) (tr s) ln rest E IL Hm ltac:(lia))
    as (buf' & t' & RU & A & B & C).
  rewrite RU. destruct (take_line _ _ _ _ A B) as (F & K).
  eexists. split; [rewrite F; reflexivity|]. cbn [buffer tr]. auto.
Qed.

(* ------------------------------------------------------------------ codes *)
Lemma digits3_cases d : digits3 d = true ->
  exists a b c, d = [a; b; c] /\ 48 <= a <= 57 /\ 48 <= b <= 57 /\ 48 <= c <= 57.
Proof.
  unfold digits3. intro H. apply andb_true_iff in H as (L & D). apply Nat.eqb_eq in L.
  destruct d as [|a [|b [|c [|e d]]]]; try discriminate.
  cbn in D. rewrite !andb_true_iff in D. destruct D as (Da & Db & Dc & _).
  apply is_digit_range in Da, Db, Dc. exists a, b, c. auto.
Qed.

Lemma digits3_value d : digits3 d = true -> try_parse_uint16 d = Some (dec_value d).
Proof.
  intro H. pose proof H as H'. destruct (digits3_cases d H) as (a & b & c & -> & Ha & Hb & Hc).
  apply try_parse_bounded_spec; [unfold max16, max64; lia|].
  unfold digits3 in H'. apply andb_true_iff in H' as (_ & D).
  split3; [discriminate|exact D|]. split; [reflexivity|].
  unfold dec_value, dec_from, max16. cbn [fold_left]. lia.
Qed.

Lemma digits3_inj d e : digits3 d = true -> digits3 e = true -> dec_value d = dec_value e -> d = e.
Proof.
  intros Hd He V. destruct (digits3_cases d Hd) as (a & b & c & -> & Ha & Hb & Hc).
  destruct (digits3_cases e He) as (a' & b' & c' & -> & Ha' & Hb' & Hc').
  unfold dec_value, dec_from in V. cbn [fold_left] in V.
  assert (a = a' /\ b = b' /\ c = c') as (-> & -> & ->) by lia. reflexivity.
Qed.

Lemma status_code_of d more : digits3 d = true -> try_parse_status_code (d ++ more) = Some (dec_value d).
Proof.
  intro H. destruct (digits3_cases d H) as (a & b & c & E & _). unfold try_parse_status_code.
  subst d. cbn [app length firstn]. destruct more; cbn; apply (digits3_value [a; b; c] H).
Qed.

(* the byte at index 3 of a line is ' ' or '-' only if it belongs to the text *)
Lemma nth3_line t tm X : X <> CR -> X <> LF -> X <> 0 ->
  (nth 3 (t ++ term_bytes tm) 0 =? X) = Nat.leb 4 (length t) && (nth 3 t 0 =? X).
Proof.
  intros H1 H2 H3.
  assert (H1' : (CR =? X) = false) by (apply N.eqb_neq; congruence).
  assert (H2' : (LF =? X) = false) by (apply N.eqb_neq; congruence).
  assert (H3' : (0 =? X) = false) by (apply N.eqb_neq; congruence).
  destruct t as [|a [|b [|c [|d t]]]]; destruct tm;
    cbn [app nth length term_bytes Nat.leb andb]; rewrite ?H1', ?H2', ?H3'; reflexivity.
Qed.

Lemma is_last_line_spec d t tm : digits3 d = true ->
  is_last_line (t ++ term_bytes tm) (dec_value d) = is_closing d t.
Proof.
  intro Hd. unfold is_last_line, is_closing.
  rewrite (nth3_line t tm SP) by discriminate.
  destruct (Nat.leb_spec 4 (length t)) as [L4|L4]; cbn [andb].
  - destruct (Nat.ltb_spec (length (t ++ term_bytes tm)) 4) as [L|L]; [rewrite app_length in L; lia|].
    destruct (nth 3 t 0 =? SP); cbn [negb andb]; [|rewrite andb_false_r; reflexivity].
    rewrite andb_true_r. unfold try_parse_status_code.
    destruct (Nat.ltb_spec (length (t ++ term_bytes tm)) 3) as [L3|L3]; [rewrite app_length in L3; lia|].
    assert (F : firstn 3 (t ++ term_bytes tm) = firstn 3 t).
    { rewrite firstn_app. replace (3 - length t)%nat with 0%nat by lia. cbn. apply app_nil_r. }
    rewrite F. destruct (bytes_eqb (firstn 3 t) d) eqn:B.
    + apply bytes_eqb_eq in B. rewrite B, (digits3_value d Hd). apply N.eqb_refl.
    + destruct (try_parse_uint16 (firstn 3 t)) as [v|] eqn:P; [|reflexivity].
      destruct (N.eqb_spec v (dec_value d)) as [V|V]; [|reflexivity]. exfalso.
      apply try_parse_bounded_spec in P as (N0 & D & V' & _); [|unfold max16, max64; lia].
      assert (digits3 (firstn 3 t) = true).
      { unfold digits3. rewrite D, firstn_length. replace (Nat.min 3 (length t)) with 3%nat by lia. reflexivity. }
      assert (firstn 3 t = d) by (apply digits3_inj; auto; congruence).
      subst d. rewrite bytes_eqb_refl in B. discriminate.
  - destruct (Nat.ltb (length (t ++ term_bytes tm)) 4); reflexivity.
Qed.

(* ------------------------------------------------------------------ stripping the terminator *)
Lemma strip_eol_line pre t tm : clean t = true -> t <> [] ->
  strip_eol (pre ++ t ++ term_bytes tm) = pre ++ t.
Proof.
  intros Hc Hn. unfold strip_eol.
  destruct (exists_last Hn) as (t' & x & ->).
  assert (Hx : (x =? CR) = false).
  { apply N.eqb_neq. intro; subst x. unfold clean in Hc. rewrite mem_app in Hc.
    unfold mem at 2 in Hc. cbn [existsb] in Hc. rewrite N.eqb_refl in Hc. cbn in Hc.
    rewrite orb_true_r in Hc. discriminate. }
  assert (L : forall y, last ((pre ++ t' ++ [x]) ++ [y]) 0 = y) by (intro y; apply last_last).
  assert (L0 : last (pre ++ t' ++ [x]) 0 = x) by (rewrite app_assoc; apply last_last).
  destruct tm; cbn [term_bytes].
  - replace (pre ++ (t' ++ [x]) ++ [CR; LF]) with (((pre ++ t' ++ [x]) ++ [CR]) ++ [LF])
      by (rewrite <- !app_assoc; reflexivity).
    rewrite last_last. change (LF =? LF) with true. cbn match.
    rewrite removelast_last, last_last. change (CR =? CR) with true. cbn match.
    rewrite removelast_last. reflexivity.
  - replace (pre ++ (t' ++ [x]) ++ [LF]) with ((pre ++ t' ++ [x]) ++ [LF])
      by (rewrite <- !app_assoc; reflexivity).
    rewrite last_last. change (LF =? LF) with true. cbn match.
    rewrite removelast_last, L0, Hx. reflexivity.
Qed.

(* ------------------------------------------------------------------ one receive step *)
Definition stream_of (s : conn) : bytes := buffer s ++ unread (tr s).

Lemma wf_line_is_line m l : wf_line m l = true ->
  is_line (wline_bytes l) /\ (length (wline_bytes l) <= m)%nat /\ clean (ltext l) = true.
Proof.
  unfold wf_line. intro H. apply andb_true_iff in H as (C & L). apply Nat.leb_le in L.
  split3; auto. apply wline_is_line. exact C.
Qed.

Lemma recv_more_frames m d lz : digits3 d = true ->
  wf_line m lz = true -> is_closing d (ltext lz) = true ->
  forall conts fuel acc s tail,
  (length conts < fuel)%nat ->
  forallb (wf_line m) conts = true ->
  forallb (fun c => negb (is_closing d (ltext c))) conts = true ->
  stream_of s = concat (map wline_bytes conts) ++ wline_bytes lz ++ tail ->
  exists s', recv_more fuel (fixed_cfg m) (dec_value d) acc s =
               (Ok (acc ++ concat (map wline_bytes conts) ++ wline_bytes lz), s') /\
             stream_of s' = tail /\ tend (tr s') = tend (tr s).
Proof.
  intros Hd Wz Cz. destruct (wf_line_is_line m lz Wz) as (ILz & Lz & _).
  induction conts as [|c conts IH]; intros fuel acc s tail Hf Wc Nc E.
  - destruct fuel as [|f]; [lia|]. cbn [recv_more map concat app] in *.
    destruct (read_line_frames (fixed_cfg m) s (wline_bytes lz) tail eq_refl E ILz Lz) as (s' & R & A & B).
    rewrite R. cbn [eof_check fixed_cfg].
    assert (NE : wline_bytes lz <> []).
    { unfold wline_bytes. intro Z. apply app_eq_nil in Z as (_ & Z). exact (term_not_nil _ Z). }
    destruct (wline_bytes lz) eqn:W; [congruence|]. cbn [andb]. rewrite <- W.
    unfold wline_bytes at 1. rewrite (is_last_line_spec d (ltext lz) (lterm lz) Hd), Cz.
    exists s'. auto.
  - destruct fuel as [|f]; [cbn in Hf; lia|]. cbn [recv_more map concat forallb] in *.
    apply andb_true_iff in Wc as (Wc1 & Wc2). apply andb_true_iff in Nc as (Nc1 & Nc2).
    destruct (wf_line_is_line m c Wc1) as (ILc & Lc & _).
    rewrite <- app_assoc in E.
    destruct (read_line_frames (fixed_cfg m) s (wline_bytes c) _ eq_refl E ILc Lc) as (s1 & R & A & B).
    rewrite R. cbn [eof_check fixed_cfg].
    assert (NE : wline_bytes c <> []).
    { unfold wline_bytes. intro Z. apply app_eq_nil in Z as (_ & Z). exact (term_not_nil _ Z). }
    destruct (wline_bytes c) eqn:W; [congruence|]. cbn [andb]. rewrite <- W.
    unfold wline_bytes at 1. rewrite (is_last_line_spec d (ltext c) (lterm c) Hd).
    apply negb_true_iff in Nc1. rewrite Nc1.
    destruct (IH f (acc ++ wline_bytes c) s1 tail ltac:(cbn in Hf; lia) Wc2 Nc2 A) as (s' & RM & A' & B').
    exists s'. rewrite RM, <- !app_assoc. split3; auto. congruence.
Qed.

Lemma lines_length (l : list wline) : (length l <= length (concat (map wline_bytes l)))%nat.
Proof.
  induction l as [|x l IH]; cbn; [lia|]. rewrite app_length. unfold wline_bytes at 1.
  rewrite app_length. destruct (lterm x); cbn; lia.
Qed.

Theorem recv_one m r s tail : wf_reply m r = true ->
  stream_of s = render_reply r ++ tail ->
  exists s', recv (fixed_cfg m) s = (Ok (expected r), s') /\ stream_of s' = tail /\
             tend (tr s') = tend (tr s).
Proof.
  intros W E. unfold wf_reply in W. apply andb_true_iff in W as (W & Wx).
  apply andb_true_iff in W as (Hd & Wl).
  unfold recv, recv_fuel. destruct r as [d rest tm | d r0 t0 conts rz tz]; cbn [wr_digits wr_lines] in *.
  - (* single line *)
    cbn [forallb] in Wl. rewrite andb_true_r in Wl. destruct (wf_line_is_line m _ Wl) as (IL & Ll & Cl).
    unfold render_reply in E. cbn [wr_lines map concat] in E. rewrite app_nil_r in E.
    destruct (read_line_frames (fixed_cfg m) s _ tail eq_refl E IL Ll) as (s' & R & A & B).
    rewrite R. unfold wline_bytes. cbn [ltext lterm] in *.
    rewrite <- app_assoc, (status_code_of d _ Hd), app_assoc.
    rewrite (nth3_line (d ++ rest) tm DASH) by discriminate.
    assert (Z : Nat.leb 4 (length (d ++ rest)) && (nth 3 (d ++ rest) 0 =? DASH) = false).
    { destruct (digits3_cases d Hd) as (a & b & c & -> & _). destruct rest as [|x rest]; cbn in *; [reflexivity|].
      apply negb_true_iff in Wx. exact Wx. }
    rewrite Z, andb_false_r.
    exists s'. split3; auto. unfold expected. cbn [wr_digits expected_text]. do 2 f_equal.
    pose proof (strip_eol_line [] (d ++ rest) tm Cl) as SE. cbn [app] in SE. rewrite SE; [reflexivity|].
    destruct (digits3_cases d Hd) as (a & b & c & -> & _). discriminate.
  - (* multi-line *)
    cbn [forallb] in Wl. apply andb_true_iff in Wl as (W0 & Wl).
    rewrite forallb_app in Wl. apply andb_true_iff in Wl as (Wc & Wz). cbn [forallb] in Wz.
    rewrite andb_true_r in Wz.
    destruct (wf_line_is_line m _ W0) as (IL0 & L0 & C0).
    unfold render_reply in E. cbn [wr_lines map concat] in E. rewrite map_app, concat_app in E.
    cbn [map concat] in E. rewrite app_nil_r, <- !app_assoc in E.
    destruct (read_line_frames (fixed_cfg m) s _ _ eq_refl E IL0 L0) as (s1 & R & A & B).
    rewrite R. unfold wline_bytes at 1 2 3. cbn [ltext lterm].
    rewrite <- app_assoc, (status_code_of d _ Hd), app_assoc.
    rewrite (nth3_line (d ++ DASH :: r0) t0 DASH) by discriminate.
    assert (Z : Nat.leb 4 (length (d ++ DASH :: r0)) && (nth 3 (d ++ DASH :: r0) 0 =? DASH) = true).
    { destruct (digits3_cases d Hd) as (a & b & c & -> & _). reflexivity. }
    rewrite Z.
    assert (L3 : Nat.ltb 3 (length ((d ++ DASH :: r0) ++ term_bytes t0)) = true).
    { apply Nat.ltb_lt. destruct (digits3_cases d Hd) as (a & b & c & -> & _). cbn. lia. }
    rewrite L3. cbn [andb].
    assert (Cz : is_closing d (ltext (mkL (d ++ SP :: rz) tz)) = true).
    { cbn [ltext]. unfold is_closing. destruct (digits3_cases d Hd) as (a & b & c & -> & _).
      cbn [app length firstn nth Nat.leb]. rewrite bytes_eqb_refl. reflexivity. }
    assert (Hf : (length conts < S (length (buffer s) + length (unread (tr s))))%nat).
    { unfold stream_of in E. apply (f_equal (@length N)) in E. rewrite !app_length in E.
      pose proof (lines_length conts). lia. }
    destruct (recv_more_frames m d _ Hd Wz Cz conts _ (wline_bytes (mkL (d ++ DASH :: r0) t0)) s1 tail Hf Wc Wx A)
      as (s' & RM & A' & B').
    rewrite RM. exists s'. split3; auto; [|congruence].
    unfold expected. cbn [wr_digits expected_text]. f_equal. f_equal.
    destruct (wf_line_is_line m _ Wz) as (_ & _ & Cl). cbn [ltext] in Cl.
    set (X := wline_bytes {| ltext := d ++ DASH :: r0; lterm := t0 |}).
    set (Y := concat (map wline_bytes conts)).
    unfold wline_bytes at 1. cbn [ltext lterm].
    replace (X ++ Y ++ (d ++ SP :: rz) ++ term_bytes tz) with ((X ++ Y) ++ (d ++ SP :: rz) ++ term_bytes tz)
      by (rewrite <- !app_assoc; reflexivity).
    rewrite strip_eol_line; [|exact Cl|destruct d; discriminate].
    rewrite <- !app_assoc. reflexivity.
Qed.

(* ------------------------------------------------------------------ the property *)
Definition not421 (r : wreply) : bool := negb (dec_value (wr_digits r) =? 421).

Lemma recv_step_other c s r s' : recv c s = (Ok r, s') -> (code r =? 421) = false -> recv_step c s = (Ok r, s').
Proof. intros R N. unfold recv_step. rewrite R, N. reflexivity. Qed.

Lemma recv_step_421 c s r s' : recv c s = (Ok r, s') -> (code r =? 421) = true -> recv_step c s = (Ok r, closed_conn).
Proof. intros R N. unfold recv_step. rewrite R, N. reflexivity. Qed.

Theorem recv_frames m : forall rs s tail,
  forallb (wf_reply m) rs = true -> forallb not421 rs = true ->
  stream_of s = render rs ++ tail ->
  exists s', recv_n (length rs) (fixed_cfg m) s = (map (fun r => Ok (expected r)) rs, s') /\
             stream_of s' = tail.
Proof.
  induction rs as [|r rs IH]; intros s tail W N E.
  - cbn. exists s. auto.
  - cbn [forallb] in W, N. apply andb_true_iff in W as (Wr & Wrs). apply andb_true_iff in N as (Nr & Nrs).
    unfold render in E. cbn [map concat] in E. rewrite <- app_assoc in E.
    destruct (recv_one m r s _ Wr E) as (s1 & R & A & _).
    cbn [length recv_n]. rewrite (recv_step_other _ _ _ _ R); [|unfold not421 in Nr; apply negb_true_iff in Nr; exact Nr].
    destruct (IH s1 tail Wrs Nrs A) as (s' & RN & A').
    rewrite RN. exists s'. auto.
Qed.

Lemma recv_step_closed m : recv_step (fixed_cfg m) closed_conn = (Exn, closed_conn).
Proof. destruct m as [|m]; [reflexivity|]. destruct m; reflexivity. Qed.

(* a 421 reply is framed like any other; after it the connection is closed: what followed is dropped and every
   later receive step fails (C13) *)
Theorem recv_frames_then_421 m rs r s tail k :
  forallb (wf_reply m) rs = true -> forallb not421 rs = true -> wf_reply m r = true -> not421 r = false ->
  stream_of s = render (rs ++ [r]) ++ tail ->
  recv_n (length rs + 1 + S k) (fixed_cfg m) s = (map (fun r => Ok (expected r)) (rs ++ [r]) ++ [Exn], closed_conn).
Proof.
  revert s. induction rs as [|r0 rs IH]; intros s W N Wr Nr E.
  - cbn [app length Nat.add recv_n]. unfold render in E. cbn [app map concat] in E. rewrite app_nil_r in E.
    destruct (recv_one m r s _ Wr E) as (s1 & R & _).
    rewrite (recv_step_421 _ _ _ _ R); [|unfold not421 in Nr; apply negb_false_iff in Nr; exact Nr].
    cbn [recv_n]. rewrite recv_step_closed. reflexivity.
  - cbn [forallb] in W, N. apply andb_true_iff in W as (W0 & Wrs). apply andb_true_iff in N as (N0 & Nrs).
    unfold render in E. cbn [app map concat] in E. rewrite <- app_assoc in E.
    destruct (recv_one m r0 s _ W0 E) as (s1 & R & A & _).
    cbn [app length Nat.add recv_n]. rewrite (recv_step_other _ _ _ _ R); [|unfold not421 in N0; apply negb_true_iff in N0; exact N0].
    rewrite (IH s1 Wrs Nrs Wr Nr A). reflexivity.
Qed.

(* two ways of cutting the same stream into reads give the same replies and keep the same rest *)
Corollary recv_schedule_irrelevant m rs tail b1 u1 sc1 e1 b2 u2 sc2 e2 :
  forallb (wf_reply m) rs = true -> forallb not421 rs = true ->
  b1 ++ u1 = render rs ++ tail -> b2 ++ u2 = render rs ++ tail ->
  let r1 := recv_n (length rs) (fixed_cfg m) (mkConn b1 (mkT u1 sc1 e1)) in
  let r2 := recv_n (length rs) (fixed_cfg m) (mkConn b2 (mkT u2 sc2 e2)) in
  fst r1 = fst r2 /\ stream_of (snd r1) = stream_of (snd r2).
Proof.
  intros W N E1 E2.
  destruct (recv_frames m rs (mkConn b1 (mkT u1 sc1 e1)) tail W N E1) as (s1 & R1 & A1).
  destruct (recv_frames m rs (mkConn b2 (mkT u2 sc2 e2)) tail W N E2) as (s2 & R2 & A2).
  cbv zeta. rewrite R1, R2. cbn. split; congruence.
Qed.

(* ================================================================== C08: totality and the cap *)
Lemma find_eol_bounds strict buf : forall pos n, find_eol strict buf pos = Some n ->
  (pos < n <= pos + length buf)%nat.
Proof.
  induction buf as [|c rest IH]; intros pos n H; cbn in H; [discriminate|].
  destruct (c =? LF); [inversion H; cbn; lia|].
  destruct (c =? CR).
  - destruct rest as [|d rest'].
    + destruct strict; [discriminate|inversion H; cbn; lia].
    + destruct (d =? LF); inversion H; cbn; lia.
  - apply IH in H. cbn. lia.
Qed.

Lemma read_some_cases t max : (1 <= max)%nat ->
  match read_some t max with
  | (RdData d, t') => d <> [] /\ unread t = d ++ unread t' /\ (length d <= max)%nat
  | (_, t') => t' = t /\ unread t = []
  end.
Proof.
  intro Hm. destruct (unread t) as [|x u] eqn:U.
  - unfold read_some. rewrite U. destruct (tend t); auto.
  - destruct (read_some_data t max ltac:(rewrite U; discriminate) Hm) as (d & t' & R & Hd & Ud & Ld & _).
    rewrite R. rewrite <- U. auto.
Qed.

Lemma read_until_total c : forall fuel buf t r buf' t',
  read_until fuel c buf t = (r, buf', t') ->
  buf' ++ unread t' = buf ++ unread t /\
  ((length buf <= maxb c)%nat -> (length buf' <= maxb c)%nat) /\
  ((length (unread t) <= fuel)%nat -> r <> RuOutOfFuel) /\
  (forall n, r = RuLine n -> (1 <= n <= length buf')%nat) /\
  (r = RuEof -> unread t' = []).
Proof.
  induction fuel as [|f IH]; intros buf t r buf' t' H; cbn [read_until] in H.
  - destruct (find_eol (strict_cr c) buf 0) as [n|] eqn:F.
    + inversion H; subst. split; [reflexivity|]. split; [auto|]. split; [discriminate|]. split; [|discriminate].
      intros n' E; inversion E; subst. apply find_eol_bounds in F. lia.
    + destruct (Nat.leb_spec (maxb c) (length buf)) as [L|L].
      * inversion H; subst. repeat split; auto; try discriminate.
      * pose proof (read_some_cases t (maxb c - length buf) ltac:(lia)) as RS.
        destruct (read_some t (maxb c - length buf)) as [[d| |] t1]; inversion H; subst.
        -- destruct RS as (Hd & Ud & Ld). rewrite <- app_assoc, <- Ud. split; [reflexivity|].
           split; [rewrite app_length; lia|]. split; [|split; discriminate].
           intro Hf. rewrite Ud, app_length in Hf. destruct d; [congruence|cbn in Hf; lia].
        -- destruct RS as (-> & U). repeat split; auto; discriminate.
        -- destruct RS as (-> & U). repeat split; auto; discriminate.
  - destruct (find_eol (strict_cr c) buf 0) as [n|] eqn:F.
    + inversion H; subst. split; [reflexivity|]. split; [auto|]. split; [discriminate|]. split; [|discriminate].
      intros n' E; inversion E; subst. apply find_eol_bounds in F. lia.
    + destruct (Nat.leb_spec (maxb c) (length buf)) as [L|L].
      * inversion H; subst. repeat split; auto; try discriminate.
      * pose proof (read_some_cases t (maxb c - length buf) ltac:(lia)) as RS.
        destruct (read_some t (maxb c - length buf)) as [[d| |] t1].
        -- destruct RS as (Hd & Ud & Ld).
           destruct (IH (buf ++ d) t1 r buf' t' H) as (A & B & C & D & E).
           split; [rewrite A, <- app_assoc, <- Ud; reflexivity|].
           split; [intros _; apply B; rewrite app_length; lia|]. split; [|split; assumption].
           intro Hf. apply C. rewrite Ud, app_length in Hf. destruct d; [congruence|cbn in Hf; lia].
        -- inversion H; subst. destruct RS as (-> & U). repeat split; auto; discriminate.
        -- inversion H; subst. destruct RS as (-> & U). repeat split; auto; discriminate.
Qed.

Lemma read_line_total c s r s' : read_line c s = (r, s') ->
  r <> OutOfFuel /\
  ((length (buffer s) <= maxb c)%nat -> (length (buffer s') <= maxb c)%nat) /\
  (forall line, r = Ok line -> line ++ stream_of s' = stream_of s /\
                (line = [] -> unread (tr s') = [])).
Proof.
  unfold read_line. destruct (read_until _ c (buffer s) (tr s)) as [[ru buf'] t'] eqn:RU.
  destruct (read_until_total c _ _ _ _ _ _ RU) as (A & B & C & D & E).
  specialize (C ltac:(lia)).
  destruct ru; intro H; inversion H; subst; cbn [buffer tr]; (split; [try discriminate; congruence|]); split.
  - intro L. rewrite skipn_length. specialize (B L). lia.
  - intros line K. inversion K; subst. unfold stream_of. cbn [buffer tr].
    rewrite app_assoc, firstn_skipn. split; [exact A|].
    intro Z. destruct (D n eq_refl) as (D1 & D2). destruct buf'; [cbn in D2; lia|].
    destruct n; [lia|]. discriminate.
  - exact B.
  - intros line K. inversion K; subst. unfold stream_of. cbn. split; [exact A|]. intros _. apply E. reflexivity.
  - exact B.
  - discriminate.
  - exact B.
  - discriminate.
  - exact B.
  - discriminate.
Qed.

Lemma recv_more_total m : forall fuel code acc s r s',
  (length (stream_of s) < fuel)%nat ->
  recv_more fuel (fixed_cfg m) code acc s = (r, s') -> r <> OutOfFuel.
Proof.
  induction fuel as [|f IH]; intros code acc s r s' Hf H; [lia|].
  cbn [recv_more] in H. destruct (read_line (fixed_cfg m) s) as [rl s1] eqn:RL.
  destruct (read_line_total _ _ _ _ RL) as (NF & _ & K).
  destruct rl as [line| |]; [|inversion H; discriminate|congruence].
  destruct (K line eq_refl) as (E & _). cbn [eof_check fixed_cfg andb] in H.
  destruct line as [|x line].
  - inversion H. discriminate.
  - destruct (is_last_line (x :: line) code); [inversion H; discriminate|].
    eapply IH; [|exact H]. rewrite <- E in Hf. rewrite app_length in Hf. cbn in Hf. lia.
Qed.

(* C08: whatever the bytes, the schedule and the way the stream ends, a receive step of the
   repaired code returns a reply or raises ftp_exception - the fuel is never exhausted *)
Theorem recv_total m s : fst (recv (fixed_cfg m) s) <> OutOfFuel.
Proof.
  unfold recv, recv_fuel. destruct (read_line (fixed_cfg m) s) as [rl s1] eqn:RL.
  destruct (read_line_total _ _ _ _ RL) as (NF & _ & K).
  destruct rl as [line| |]; cbn [fst]; [|discriminate|congruence].
  destruct (try_parse_status_code line) as [code|]; [|cbn [fst]; discriminate].
  destruct (Nat.ltb 3 (length line) && (nth 3 line 0 =? DASH)); [|cbn [fst]; discriminate].
  destruct (recv_more _ (fixed_cfg m) code line s1) as [rm s2] eqn:RM.
  assert (rm <> OutOfFuel).
  { eapply recv_more_total; [|exact RM]. destruct (K line eq_refl) as (E & _).
    apply (f_equal (@length N)) in E. unfold stream_of in *. rewrite !app_length in E.
    rewrite app_length. lia. }
  destruct rm; cbn [fst]; congruence.
Qed.

(* the buffer never exceeds the cap, and a full buffer without terminator is refused without reading *)
Theorem line_cap c s r s' : read_line c s = (r, s') ->
  (length (buffer s) <= maxb c)%nat -> (length (buffer s') <= maxb c)%nat.
Proof. intros H. apply (read_line_total c s r s' H). Qed.

Theorem full_buffer_refused c s : find_eol (strict_cr c) (buffer s) 0 = None ->
  (maxb c <= length (buffer s))%nat -> read_line c s = (Exn, s).
Proof.
  intros F L. unfold read_line. cbn [read_until]. rewrite F.
  destruct (Nat.leb_spec (maxb c) (length (buffer s))); [|lia]. destruct s; reflexivity.
Qed.

(* ------------------------------------------------------------------ the pinned code *)
(* F1: "150 ok CRLF 226 done CRLF", first read cut between CR and LF *)
Definition f1_stream : bytes := [49;53;48;32;111;107;13;10; 50;50;54;32;100;111;110;101;13;10].
Theorem recv_frames_refuted_on_pinned :
  exists s, stream_of s = f1_stream /\
    fst (recv_n 2 (pinned_cfg 64) s) <> fst (recv_n 2 (fixed_cfg 64) s).
Proof.
  exists (mkConn [] (mkT f1_stream [7%nat] EndEof)). split; [reflexivity|]. vm_compute. discriminate.
Qed.

(* F2: EOF inside a multi-line reply: the pinned loop never ends, whatever the fuel *)
Definition f2_stream : bytes := [50;49;49;45;102;13;10; 32;97;13;10].
Lemma recv_more_pinned_spins m code : forall fuel acc buf e,
  find_eol false buf 0 = None -> (length buf < m)%nat ->
  fst (recv_more fuel (pinned_cfg m) code acc (mkConn buf (mkT [] [] e))) = OutOfFuel \/ e = EndErr.
Proof.
  induction fuel as [|f IH]; intros acc buf e F L; [left; reflexivity|].
  destruct e; [|right; reflexivity]. left.
  cbn [recv_more]. unfold read_line. cbn [read_until buffer tr unread pinned_cfg strict_cr maxb length].
  rewrite F. destruct (Nat.leb_spec m (length buf)); [lia|]. cbn.
  destruct (IH (acc ++ []) buf EndEof F L) as [K|K]; [|discriminate].
  destruct (recv_more f (pinned_cfg m) code (acc ++ []) _) eqn:R. cbn in K. subst. reflexivity.
Qed.

Definition f2_conn : conn := mkConn f2_stream (mkT [] [] EndEof).

Theorem recv_livelock_refuted_on_pinned :
  forall fuel, fst (recv_fuel fuel (pinned_cfg 64) f2_conn) = OutOfFuel.
Proof.
  intro fuel. unfold recv_fuel.
  replace (read_line (pinned_cfg 64) f2_conn)
    with (Ok [50;49;49;45;102;13;10], mkConn [32;97;13;10] (mkT [] [] EndEof)) by (vm_compute; reflexivity).
  replace (try_parse_status_code [50;49;49;45;102;13;10]) with (Some 211) by (vm_compute; reflexivity).
  replace (Nat.ltb 3 (length [50;49;49;45;102;13;10]) && (nth 3 [50;49;49;45;102;13;10] 0 =? DASH)) with true
    by (vm_compute; reflexivity).
  destruct fuel as [|f]; [reflexivity|]. cbn [recv_more].
  replace (read_line (pinned_cfg 64) (mkConn [32;97;13;10] (mkT [] [] EndEof)))
    with (Ok [32;97;13;10], mkConn [] (mkT [] [] EndEof)) by (vm_compute; reflexivity).
  cbn [eof_check pinned_cfg andb].
  replace (is_last_line [32;97;13;10] 211) with false by (vm_compute; reflexivity).
  destruct (recv_more_pinned_spins 64 211 f ([50;49;49;45;102;13;10] ++ [32;97;13;10]) [] EndEof eq_refl ltac:(cbn; lia))
    as [K|K]; [|discriminate].
  destruct (recv_more f (pinned_cfg 64) 211 _ _) eqn:R. cbn [fst] in *. subst. reflexivity.
Qed.

(* ... while the repaired code raises an exception on the same input *)
Example recv_eof_inside_multiline_fixed : fst (recv (fixed_cfg 64) f2_conn) = Exn.
Proof. vm_compute. reflexivity. Qed.

(* commands sent between receive steps change nothing: the replies are those of the same number of receive steps *)
Lemma run_ops_recv_n : forall ops c s, run_ops ops c s = recv_n (count_recv ops) c s.
Proof.
  induction ops as [|o ops IH]; intros c s; [reflexivity|].
  destruct o; cbn [run_ops count_recv recv_n]; [|apply IH].
  destruct (recv_step c s) as [r s']. destruct r; try reflexivity. rewrite IH. reflexivity.
Qed.

Theorem recv_frames_with_sends m : forall ops rs s tail,
  forallb (wf_reply m) rs = true -> forallb not421 rs = true ->
  stream_of s = render rs ++ tail -> count_recv ops = length rs ->
  exists s', run_ops ops (fixed_cfg m) s = (map (fun r => Ok (expected r)) rs, s') /\
             stream_of s' = tail.
Proof.
  intros ops rs s tail W N E C. rewrite run_ops_recv_n, C. exact (recv_frames m rs s tail W N E).
Qed.
