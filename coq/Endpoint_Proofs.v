From LibFtp Require Import Bytes Decimal Decimal_Proofs Endpoint.
Local Open Scope N_scope.

(* ---------- the parenthesised part ---------- *)
Lemma app_cons_split {A} (pre : list A) x r1 p2 y suf :
  pre ++ x :: r1 = p2 ++ y :: suf -> (length pre < length p2)%nat ->
  exists inner, p2 = pre ++ x :: inner /\ r1 = inner ++ y :: suf.
Proof.
  revert p2; induction pre as [|a pre IH]; intros [|b p2] H L; cbn in *; try lia.
  - inversion H; subst. exists p2. auto.
  - inversion H; subst. destruct (IH p2 H2 ltac:(lia)) as (inner & -> & ->). exists inner. auto.
Qed.

Lemma paren_split s b e :
  find_first LPAR s = Some b -> find_last RPAR s = Some e -> (b < e)%nat ->
  exists pre inner suf, s = pre ++ LPAR :: inner ++ RPAR :: suf /\ length pre = b /\
    (length inner = e - S b)%nat /\ mem LPAR pre = false /\ mem RPAR suf = false.
Proof.
  intros F L Hlt.
  apply find_first_spec in F as (pre & r1 & E1 & Lp & Mp).
  apply find_last_spec in L as (p2 & suf & E2 & Lq & Ms).
  rewrite E1 in E2. destruct (app_cons_split pre LPAR r1 p2 RPAR suf E2 ltac:(lia)) as (inner & -> & ->).
  exists pre, inner, suf. repeat split; auto.
  rewrite app_length in Lq. cbn in Lq. lia.
Qed.

Lemma paren_find pre inner suf :
  mem LPAR pre = false -> mem RPAR suf = false ->
  let s := pre ++ LPAR :: inner ++ RPAR :: suf in
  find_first LPAR s = Some (length pre) /\
  find_last RPAR s = Some (length pre + S (length inner))%nat.
Proof.
  intros Mp Ms s. split.
  - apply find_first_app_notin. exact Mp.
  - unfold s. replace (pre ++ LPAR :: inner ++ RPAR :: suf) with ((pre ++ LPAR :: inner) ++ RPAR :: suf)
      by (rewrite <- app_assoc; reflexivity).
    rewrite find_last_app_notin by exact Ms. rewrite app_length. reflexivity.
Qed.

Lemma inner_substr pre inner suf :
  substr (pre ++ LPAR :: inner ++ RPAR :: suf) (S (length pre)) (length inner) = inner.
Proof.
  unfold substr.
  replace (pre ++ LPAR :: inner ++ RPAR :: suf) with ((pre ++ [LPAR]) ++ inner ++ RPAR :: suf)
    by (rewrite <- app_assoc; reflexivity).
  replace (S (length pre)) with (length (pre ++ [LPAR])) by (rewrite app_length; cbn; lia).
  rewrite skipn_app, skipn_all, Nat.sub_diag. cbn [skipn app].
  rewrite firstn_app, firstn_all, Nat.sub_diag. cbn. apply app_nil_r.
Qed.

Lemma app_inv_len {A} (a a' b b' : list A) :
  length a = length a' -> a ++ b = a' ++ b' -> a = a' /\ b = b'.
Proof.
  revert a'; induction a as [|x a IH]; intros [|y a'] L E; cbn in *; try discriminate; auto.
  inversion E; subst. destruct (IH a' ltac:(lia) H1) as (-> & ->). auto.
Qed.

(* decomposition performed by both parsers *)
Definition parens (s pre inner suf : bytes) : Prop :=
  s = pre ++ LPAR :: inner ++ RPAR :: suf /\ mem LPAR pre = false /\ mem RPAR suf = false.

Lemma parens_unique s pre inner suf pre' inner' suf' :
  parens s pre inner suf -> parens s pre' inner' suf' -> pre = pre' /\ inner = inner' /\ suf = suf'.
Proof.
  intros (E & Mp & Ms) (E' & Mp' & Ms').
  pose proof (paren_find pre inner suf Mp Ms) as (F1 & L1).
  pose proof (paren_find pre' inner' suf' Mp' Ms') as (F1' & L1').
  cbv zeta in *. rewrite <- E in F1, L1. rewrite <- E' in F1', L1'.
  rewrite F1 in F1'. rewrite L1 in L1'. inversion F1' as [Hl]. inversion L1' as [Hl2].
  rewrite E in E'.
  assert (pre = pre' /\ LPAR :: inner ++ RPAR :: suf = LPAR :: inner' ++ RPAR :: suf') as (-> & E2).
  { apply app_inv_len; assumption. }
  split; [reflexivity|]. inversion E2 as [E3].
  apply app_inv_len in E3; [|lia]. destruct E3 as (-> & E4). inversion E4. auto.
Qed.

Lemma front_some s b e :
  find_first LPAR s = Some b -> find_last RPAR s = Some e -> Nat.leb e b = false ->
  exists pre inner suf, parens s pre inner suf /\ substr s (S b) (e - S b) = inner /\
                        (length inner = e - S b)%nat.
Proof.
  intros F L H. apply Nat.leb_gt in H.
  destruct (paren_split s b e F L H) as (pre & inner & suf & E & Lp & Li & Mp & Ms).
  exists pre, inner, suf. repeat split; auto.
  subst b. rewrite <- Li, E. apply inner_substr.
Qed.

Lemma front_of_parens s pre inner suf : parens s pre inner suf ->
  find_first LPAR s = Some (length pre) /\
  find_last RPAR s = Some (length pre + S (length inner))%nat /\
  substr s (S (length pre)) (length pre + S (length inner) - S (length pre)) = inner.
Proof.
  intros (E & Mp & Ms). destruct (paren_find pre inner suf Mp Ms) as (F & L).
  cbv zeta in *. rewrite <- E in F, L. repeat split; auto.
  replace (length pre + S (length inner) - S (length pre))%nat with (length inner) by lia.
  rewrite E. apply inner_substr.
Qed.

(* ---------- pieces / join ---------- *)
Lemma pieces_nosep d x : mem d x = false -> pieces d x = [x].
Proof.
  induction x as [|c x IH]; cbn; intro H; [reflexivity|].
  apply orb_false_iff in H as (H1 & H2). rewrite N.eqb_sym, H1, (IH H2). reflexivity.
Qed.

Lemma pieces_app_sep d x rest : mem d x = false -> pieces d (x ++ d :: rest) = x :: pieces d rest.
Proof.
  induction x as [|c x IH]; cbn; intro H.
  - rewrite N.eqb_refl. reflexivity.
  - apply orb_false_iff in H as (H1 & H2). rewrite N.eqb_sym, H1, (IH H2). reflexivity.
Qed.

Lemma pieces_join d fields : fields <> [] -> (forall t, In t fields -> mem d t = false) ->
  pieces d (join [d] fields) = fields.
Proof.
  induction fields as [|x fs IH]; intros NE H; [congruence|].
  destruct fs as [|y fs].
  - cbn. apply pieces_nosep. apply H. left; reflexivity.
  - change (join [d] (x :: y :: fs)) with (x ++ d :: join [d] (y :: fs)).
    rewrite pieces_app_sep by (apply H; left; reflexivity).
    rewrite IH; [reflexivity|discriminate|]. intros t Ht. apply H. right; exact Ht.
Qed.

Lemma drop_last_empty_id (l : list bytes) : last l [0] <> [] -> drop_last_empty l = l.
Proof.
  induction l as [|x l IH]; intro H; [reflexivity|].
  destruct l as [|y l].
  - cbn in *. destruct x; [congruence|reflexivity].
  - assert (E : drop_last_empty (x :: y :: l) = x :: drop_last_empty (y :: l)) by (destruct x; reflexivity).
    rewrite E, IH; [reflexivity|]. exact H.
Qed.

Lemma split_join d fields : fields <> [] -> (forall t, In t fields -> mem d t = false) ->
  last fields [0] <> [] -> split_string (join [d] fields) d = fields.
Proof.
  intros NE H L. rewrite split_string_spec, pieces_join by assumption. apply drop_last_empty_id. exact L.
Qed.

(* the fields produced by split_string contain no separator *)
Lemma pieces_no_sep d s : forall t, In t (pieces d s) -> mem d t = false.
Proof.
  induction s as [|c s IH]; cbn; intros t Ht.
  - destruct Ht as [<-|[]]. reflexivity.
  - destruct (c =? d) eqn:E.
    + destruct Ht as [<-|Ht]; [reflexivity|auto].
    + destruct (pieces d s) as [|p ps] eqn:P.
      * destruct Ht as [<-|[]]. cbn. rewrite N.eqb_sym, E. reflexivity.
      * destruct Ht as [<-|Ht].
        -- cbn. rewrite N.eqb_sym, E. cbn. apply IH. left; reflexivity.
        -- apply IH. right; exact Ht.
Qed.

Lemma join_pieces d s : join [d] (pieces d s) = s.
Proof.
  induction s as [|c s IH]; [reflexivity|]. cbn [pieces].
  destruct (c =? d) eqn:E.
  - apply N.eqb_eq in E; subst c.
    destruct (pieces d s) as [|p ps] eqn:P; [exfalso; eapply pieces_nonempty; eauto|].
    change (join [d] ([] :: p :: ps)) with ([] ++ [d] ++ join [d] (p :: ps)). rewrite IH. reflexivity.
  - destruct (pieces d s) as [|p ps] eqn:P; [exfalso; eapply pieces_nonempty; eauto|].
    destruct ps as [|q ps]; cbn in *; rewrite <- IH; reflexivity.
Qed.

(* ---------- decimal fields ---------- *)
Definition field (t : bytes) (bound v : N) : Prop :=
  t <> [] /\ all_digits t = true /\ dec_value t = v /\ v <= bound.

Lemma u8_field t v : try_parse_uint8 t = Some v <-> field t 255 v.
Proof. unfold try_parse_uint8, field. apply try_parse_bounded_spec. unfold max8, max64; lia. Qed.
Lemma u16_field t v : try_parse_uint16 t = Some v <-> field t 65535 v.
Proof. unfold try_parse_uint16, field. apply try_parse_bounded_spec. unfold max16, max64; lia. Qed.

(* ---------- PASV ---------- *)
Lemma digits_no (c : N) t : is_digit c = false -> all_digits t = true -> mem c t = false.
Proof.
  intros Hc. unfold mem, all_digits. induction t as [|x t IH]; cbn [existsb forallb]; intro H; [reflexivity|].
  apply andb_true_iff in H as (Hx & Ht). rewrite (IH Ht), orb_false_r.
  destruct (c =? x) eqn:E; [|reflexivity]. apply N.eqb_eq in E; subst. congruence.
Qed.

Lemma last_app_ne {A} (a b : list A) (x : A) : b <> [] -> last (a ++ b) x = last b x.
Proof.
  intro NE. induction a as [|y a IH]; [reflexivity|].
  cbn [app]. remember (a ++ b) as l eqn:E. destruct l as [|z l].
  - destruct a; cbn in E; [congruence|discriminate].
  - exact IH.
Qed.

Lemma pieces_last_nonempty d s : s <> [] -> last s 0 <> d -> last (pieces d s) [0] <> [].
Proof.
  induction s as [|c s IH]; intros NE L; [congruence|].
  destruct s as [|c' s'].
  - cbn in L. cbn. destruct (c =? d) eqn:E; [apply N.eqb_eq in E; congruence|]. cbn. discriminate.
  - assert (L' : last (c' :: s') 0 <> d) by exact L.
    specialize (IH ltac:(discriminate) L').
    remember (c' :: s') as r eqn:R.
    cbn [pieces]. destruct (pieces d r) as [|p ps] eqn:P; [exfalso; eapply pieces_nonempty; eauto|].
    destruct (c =? d).
    + exact IH.
    + destruct ps as [|q ps]; [cbn; discriminate|exact IH].
Qed.

Lemma field_last_digit t b v : field t b v -> last t 0 <> COMMA.
Proof.
  intros (NE & AD & _). induction t as [|c t IH]; [congruence|].
  cbn [all_digits forallb] in AD. apply andb_true_iff in AD as (Dc & Dt).
  destruct t as [|c' t'].
  - cbn. intro E. subst c. vm_compute in Dc. discriminate.
  - apply IH; [discriminate|exact Dt].
Qed.

Lemma field_nocomma t b v : field t b v -> mem COMMA t = false.
Proof. intros (_ & AD & _). apply digits_no; [reflexivity|exact AD]. Qed.

(* the 227 parser accepts exactly: "(" six 8-bit decimal fields separated by commas ")" - first "(" to last ")" -
   and returns the address rebuilt from the four numbers and the port hi * 256 + lo *)
Theorem pasv_iff s ip port : try_parse_pasv_reply s = Some (ip, port) <->
  exists pre suf t0 t1 t2 t3 t4 t5 a b c d hi lo,
    parens s pre (join [COMMA] [t0; t1; t2; t3; t4; t5]) suf /\
    field t0 255 a /\ field t1 255 b /\ field t2 255 c /\ field t3 255 d /\ field t4 255 hi /\ field t5 255 lo /\
    ip = dotted a b c d /\ port = hi * 256 + lo.
Proof.
  split.
  - unfold try_parse_pasv_reply.
    destruct (find_first LPAR s) as [b|] eqn:F; [|discriminate].
    destruct (find_last RPAR s) as [e|] eqn:L; [|discriminate].
    destruct (Nat.leb e b) eqn:Hle; [discriminate|].
    destruct (Nat.leb e (S b)) eqn:Hle1; [discriminate|].
    destruct (front_some s b e F L Hle) as (pre & inner & suf & P & -> & Li).
    destruct (split_string inner COMMA) as [|t0 [|t1 [|t2 [|t3 [|t4 [|t5 [|t6 ts]]]]]]] eqn:Sp; try discriminate.
    destruct (last inner 0 =? COMMA) eqn:LC; [discriminate|].
    destruct (try_parse_uint8 t0) as [h0|] eqn:E0; [|discriminate].
    destruct (try_parse_uint8 t1) as [h1|] eqn:E1; [|discriminate].
    destruct (try_parse_uint8 t2) as [h2|] eqn:E2; [|discriminate].
    destruct (try_parse_uint8 t3) as [h3|] eqn:E3; [|discriminate].
    destruct (try_parse_uint8 t4) as [hi|] eqn:E4; [|discriminate].
    destruct (try_parse_uint8 t5) as [lo|] eqn:E5; [|discriminate].
    intro H; inversion H; subst ip port; clear H.
    apply u8_field in E0, E1, E2, E3, E4, E5.
    apply N.eqb_neq in LC.
    assert (NEi : inner <> []).
    { intro X. subst inner. apply Nat.leb_gt in Hle1. cbn in Li. lia. }
    assert (J : join [COMMA] [t0; t1; t2; t3; t4; t5] = inner).
    { rewrite <- Sp, split_string_spec, drop_last_empty_id by (apply pieces_last_nonempty; assumption).
      apply join_pieces. }
    exists pre, suf, t0, t1, t2, t3, t4, t5, h0, h1, h2, h3, hi, lo.
    rewrite J. repeat (split; [assumption|]). split; [reflexivity|].
    apply N.mod_small. destruct E4 as (_ & _ & _ & ?), E5 as (_ & _ & _ & ?). lia.
  - intros (pre & suf & t0 & t1 & t2 & t3 & t4 & t5 & a & b & c & d & hi & lo & P & F0 & F1 & F2 & F3 & F4 & F5 & -> & ->).
    set (inner := join [COMMA] [t0; t1; t2; t3; t4; t5]) in *.
    destruct (front_of_parens s pre inner suf P) as (F & L & Sub).
    assert (NEi : (0 < length inner)%nat).
    { unfold inner. cbn [join]. rewrite !app_length. destruct F5 as (N5 & _). destruct t5; [congruence|]. cbn. lia. }
    unfold try_parse_pasv_reply. rewrite F, L.
    destruct (Nat.leb_spec (length pre + S (length inner)) (length pre)); [lia|].
    destruct (Nat.leb_spec (length pre + S (length inner)) (S (length pre))); [lia|].
    rewrite Sub. unfold inner at 1. rewrite split_join; [|discriminate| |cbn; apply F5].
    2:{ intros t [<-|[<-|[<-|[<-|[<-|[<-|[]]]]]]]; eapply field_nocomma; eauto. }
    assert (LC : (last inner 0 =? COMMA) = false).
    { apply N.eqb_neq. unfold inner. cbn [join].
      rewrite !app_assoc. rewrite last_app_ne by (destruct F5 as (N5 & _); exact N5).
      eapply field_last_digit; eauto. }
    rewrite LC.
    apply u8_field in F0 as ->. apply u8_field in F1 as ->. apply u8_field in F2 as ->. apply u8_field in F3 as ->.
    apply u8_field in F4 as E4. apply u8_field in F5 as E5. rewrite E4, E5.
    rewrite N.mod_small; [reflexivity|].
    apply u8_field in E4 as (_ & _ & _ & ?). apply u8_field in E5 as (_ & _ & _ & ?). lia.
Qed.

(* the two halves in the shape used elsewhere *)
Theorem pasv_sound s ip port : try_parse_pasv_reply s = Some (ip, port) ->
  exists pre suf t0 t1 t2 t3 t4 t5 a b c d hi lo,
    parens s pre (join [COMMA] [t0; t1; t2; t3; t4; t5]) suf /\
    field t0 255 a /\ field t1 255 b /\ field t2 255 c /\ field t3 255 d /\ field t4 255 hi /\ field t5 255 lo /\
    ip = dotted a b c d /\ port = hi * 256 + lo.
Proof. apply pasv_iff. Qed.

Theorem pasv_complete pre suf t0 t1 t2 t3 t4 t5 a b c d hi lo :
  mem LPAR pre = false -> mem RPAR suf = false ->
  field t0 255 a -> field t1 255 b -> field t2 255 c -> field t3 255 d -> field t4 255 hi -> field t5 255 lo ->
  try_parse_pasv_reply (pre ++ LPAR :: join [COMMA] [t0; t1; t2; t3; t4; t5] ++ RPAR :: suf)
  = Some (dotted a b c d, hi * 256 + lo).
Proof.
  intros Mp Ms F0 F1 F2 F3 F4 F5. apply pasv_iff.
  exists pre, suf, t0, t1, t2, t3, t4, t5, a, b, c, d, hi, lo. split; [repeat split; auto|]. repeat (split; [assumption|]). auto.
Qed.

(* rejections: never a wrapped or guessed value *)
Theorem pasv_rejects_no_lpar s : mem LPAR s = false -> try_parse_pasv_reply s = None.
Proof.
  intro H. destruct (try_parse_pasv_reply s) as [[ip p]|] eqn:E; [|reflexivity].
  apply pasv_sound in E as (pre & suf & ? & ? & ? & ? & ? & ? & ? & ? & ? & ? & ? & ? & (-> & _) & _).
  rewrite mem_app in H. cbn in H. rewrite orb_true_r in H. discriminate.
Qed.

Theorem pasv_rejects_no_rpar s : mem RPAR s = false -> try_parse_pasv_reply s = None.
Proof.
  intro H. destruct (try_parse_pasv_reply s) as [[ip p]|] eqn:E; [|reflexivity].
  apply pasv_sound in E as (pre & suf & t0 & t1 & t2 & t3 & t4 & t5 & ? & ? & ? & ? & ? & ? & (-> & _) & _).
  set (inner := join [COMMA] [t0; t1; t2; t3; t4; t5]) in *.
  rewrite mem_app in H. cbn [mem existsb] in H. fold (mem RPAR (inner ++ RPAR :: suf)) in H.
  rewrite mem_app in H. cbn in H. rewrite !orb_true_r in H. discriminate.
Qed.

(* the text between the first "(" and the last ")" is split at EVERY comma ([pieces]: nothing dropped): anything but
   exactly six pieces, or a piece that is not an 8-bit decimal number, is refused *)
Theorem pasv_rejects_fields s pre inner suf : parens s pre inner suf ->
  (length (pieces COMMA inner) <> 6%nat \/
   (exists k, (k < 6)%nat /\ forall v, ~ field (nth k (pieces COMMA inner) []) 255 v)) ->
  try_parse_pasv_reply s = None.
Proof.
  intros P H. destruct (try_parse_pasv_reply s) as [[ip p]|] eqn:E; [|reflexivity].
  apply pasv_sound in E as (pre' & suf' & t0 & t1 & t2 & t3 & t4 & t5 & a & b & c & d & hi & lo & P' & F0 & F1 & F2 & F3 & F4 & F5 & _).
  destruct (parens_unique _ _ _ _ _ _ _ P P') as (_ & -> & _).
  rewrite pieces_join in H; [|discriminate|intros t [<-|[<-|[<-|[<-|[<-|[<-|[]]]]]]]; eapply field_nocomma; eauto].
  exfalso. destruct H as [H|(k & Hk & H)]; [cbn in H; congruence|].
  destruct k as [|[|[|[|[|[|k]]]]]]; cbn in H; try lia; eapply H; eauto.
Qed.

(* ---------- EPSV ---------- *)
Theorem epsv_iff s p : try_parse_epsv_reply s = Some p <->
  exists pre d digits suf,
    parens s pre ([d; d; d] ++ digits ++ [d]) suf /\ 33 <= d <= 126 /\ field digits 65535 p.
Proof.
  unfold try_parse_epsv_reply. split.
  - destruct (find_first LPAR s) as [b|] eqn:F; [|discriminate].
    destruct (find_last RPAR s) as [e|] eqn:L; [|discriminate].
    destruct (Nat.leb e b) eqn:Hle; [discriminate|].
    destruct (front_some s b e F L Hle) as (pre & inner & suf & P & -> & Li).
    destruct (Nat.ltb_spec (length inner) 5) as [L5|L5]; [discriminate|].
    destruct inner as [|d [|d2 [|d3 rest]]]; try discriminate.
    destruct ((d <? 33) || (126 <? d)) eqn:R; [discriminate|].
    apply orb_false_iff in R as (R1 & R2). apply N.ltb_ge in R1, R2.
    destruct ((d2 =? d) && (d3 =? d) && (last rest 0 =? d)) eqn:D; cbn [negb]; [|discriminate].
    rewrite !andb_true_iff, !N.eqb_eq in D. destruct D as ((-> & ->) & D3).
    intro H. apply u16_field in H.
    assert (NE : rest <> []) by (destruct rest; [cbn in L5; lia|discriminate]).
    exists pre, d, (removelast rest), suf.
    split; [|split; [lia|exact H]].
    destruct P as (E & Mp & Ms). split; [|split; assumption].
    rewrite E. replace (removelast rest ++ [d]) with rest; [reflexivity|].
    rewrite <- D3. apply app_removelast_last. exact NE.
  - intros (pre & d & digits & suf & P & (R1 & R2) & Fd).
    destruct (front_of_parens _ _ _ _ P) as (F & L & Sub). rewrite F, L.
    set (inner := [d; d; d] ++ digits ++ [d]) in *.
    destruct (Nat.leb_spec (length pre + S (length inner)) (length pre)); [lia|].
    rewrite Sub. unfold inner. cbn [app length].
    assert (Ld : (0 < length digits)%nat) by (destruct Fd as (N0 & _); destruct digits; [congruence|cbn; lia]).
    destruct (Nat.ltb_spec (S (S (S (length (digits ++ [d]))))) 5) as [L5|L5];
      [rewrite app_length in L5; cbn in L5; lia|].
    destruct (N.ltb_spec d 33); [lia|]. destruct (N.ltb_spec 126 d); [lia|]. cbn [orb].
    rewrite !N.eqb_refl, last_last, N.eqb_refl. cbn [andb negb].
    rewrite removelast_last. apply u16_field. exact Fd.
Qed.

(* the pinned parsers return wrapped / misplaced values (findings F5, F6) *)
Theorem pasv_wrap_refuted_on_pinned :
  exists s ip, try_parse_pasv_reply_pinned s = Some (ip, 0) /\ try_parse_pasv_reply s = None.
Proof.
  (* "(127,0,0,1,256,0)" *)
  exists [40; 49;50;55;44; 48;44; 48;44; 49;44; 50;53;54;44; 48; 41], [49;50;55;46;48;46;48;46;49].
  split; vm_compute; reflexivity.
Qed.

(* the pinned code took "h1,h2,h3,h4,p1,p2," for six fields and never looked at h1..h4 *)
Theorem pasv_trailing_comma_refuted_on_pinned :
  exists s r, try_parse_pasv_reply_pinned s = Some r /\ try_parse_pasv_reply s = None.
Proof.
  (* "(1,2,3,4,5,6,)" *)
  exists [40; 49;44; 50;44; 51;44; 52;44; 53;44; 54;44; 41]. eexists. split; vm_compute; reflexivity.
Qed.
Theorem pasv_host_not_numeric_refuted_on_pinned :
  exists s r, try_parse_pasv_reply_pinned s = Some r /\ try_parse_pasv_reply s = None.
Proof.
  (* "(::1,0,0,1,4,5)": the pinned code built the text "::1.0.0.1", which boost::asio::ip::make_address takes for an IPv6 address *)
  exists [40; 58;58;49;44; 48;44; 48;44; 49;44; 52;44; 53; 41]. eexists. split; vm_compute; reflexivity.
Qed.

Theorem epsv_delims_refuted_on_pinned :
  exists s, try_parse_epsv_reply_pinned s = Some 644 /\ try_parse_epsv_reply s = None.
Proof.
  (* "(|||6446)" *)
  exists [40; 124;124;124; 54;52;52;54; 41]. split; vm_compute; reflexivity.
Qed.

(* ---------- std::to_string ---------- *)
Lemma dec_from_app v a b : dec_from v (a ++ b) = dec_from (dec_from v a) b.
Proof. unfold dec_from. apply fold_left_app. Qed.

Lemma to_digits_spec fuel : forall n acc, n < 10 ^ N.of_nat fuel -> (0 < fuel)%nat ->
  exists ds, to_digits_fuel fuel n acc = ds ++ acc /\ ds <> [] /\ all_digits ds = true /\ dec_value ds = n.
Proof.
  induction fuel as [|f IH]; intros n acc H Hf.
  - lia.
  - cbn [to_digits_fuel]. assert (D : is_digit (48 + n mod 10) = true).
    { apply is_digit_range. pose proof (N.mod_upper_bound n 10 ltac:(lia)) as M.
      set (m := n mod 10) in *. clearbody m. clear - M. lia. }
    destruct (N.ltb_spec n 10) as [S|S].
    + exists [48 + n mod 10]. repeat split; [discriminate|unfold all_digits; cbn [forallb]; rewrite D; reflexivity|].
      unfold dec_value, dec_from. cbn [fold_left]. rewrite N.mod_small by exact S. clear. lia.
    + assert (Hd : n / 10 < 10 ^ N.of_nat f).
      { apply N.div_lt_upper_bound; [lia|]. rewrite Nat2N.inj_succ, N.pow_succ_r' in H. exact H. }
      assert (Hf' : (0 < f)%nat).
      { destruct f; [|lia]. cbn in Hd. assert (1 <= n / 10) by (apply N.div_le_lower_bound; lia). lia. }
      destruct (IH (n / 10) ((48 + n mod 10) :: acc) Hd Hf') as (ds & E & NE & AD & DV).
      exists (ds ++ [48 + n mod 10]). rewrite E, <- app_assoc. repeat split.
      * destruct ds; discriminate.
      * unfold all_digits. rewrite forallb_app. fold (all_digits ds). rewrite AD. cbn [forallb andb]. rewrite D. reflexivity.
      * unfold dec_value in *. rewrite dec_from_app, DV. unfold dec_from; cbn [fold_left].
        pose proof (N.div_mod n 10 ltac:(lia)) as DM.
        set (q := n / 10) in *. set (m := n mod 10) in *. clearbody q m. clear - DM. lia.
Qed.

Global Opaque to_string.

Lemma pow10_20 : 10 ^ N.of_nat 20 = 100000000000000000000.
Proof. reflexivity. Qed.

Lemma to_string_spec n : n < 100000000000000000000 ->
  to_string n <> [] /\ all_digits (to_string n) = true /\ dec_value (to_string n) = n.
Proof.
  intro H. Transparent to_string. unfold to_string. Opaque to_string.
  destruct (to_digits_spec 20 n [] ltac:(rewrite pow10_20; exact H) ltac:(lia)) as (ds & E & NE & AD & DV).
  rewrite E, app_nil_r. auto.
Qed.



Lemma dots_to_commas_digits t : all_digits t = true -> dots_to_commas t = t.
Proof.
  unfold all_digits, dots_to_commas. induction t as [|x t IH]; cbn [map forallb]; intro H; [reflexivity|].
  apply andb_true_iff in H as (Hx & Ht). rewrite (IH Ht).
  destruct (x =? DOT) eqn:E; [|reflexivity]. apply N.eqb_eq in E; subst. discriminate.
Qed.

Lemma dots_to_commas_app a b : dots_to_commas (a ++ b) = dots_to_commas a ++ dots_to_commas b.
Proof. apply map_app. Qed.

(* what PORT advertises is parsed back by the 227 parser to the same address and port:
   both directions agree for every IPv4 address and all 65536 ports *)
Theorem port_roundtrip a b c d p pre suf cmd :
  a < 256 -> b < 256 -> c < 256 -> d < 256 -> p < 65536 ->
  mem LPAR pre = false -> mem RPAR suf = false ->
  make_port_command (V4 a b c d) p = Some cmd ->
  exists args, cmd = PORT_ ++ [SP] ++ args /\
    try_parse_pasv_reply (pre ++ LPAR :: args ++ RPAR :: suf) = Some (dotted a b c d, p).
Proof.
  intros Ha Hb Hc Hd Hp Mp Ms H. unfold make_port_command, make_port_command_gen in H.
  cbn [addr_text] in H. inversion H; subst cmd; clear H.
  destruct (to_string_spec a ltac:(lia)) as (Na & Da & Va).
  destruct (to_string_spec b ltac:(lia)) as (Nb & Db & Vb).
  destruct (to_string_spec c ltac:(lia)) as (Nc & Dc & Vc).
  destruct (to_string_spec d ltac:(lia)) as (Nd & Dd & Vd).
  assert (Hhi : p / 256 < 256) by (apply N.div_lt_upper_bound; lia).
  assert (Hlo : p mod 256 < 256) by (apply N.mod_upper_bound; lia).
  destruct (to_string_spec (p / 256) ltac:(lia)) as (Nh & Dh & Vh).
  destruct (to_string_spec (p mod 256) ltac:(lia)) as (Nl & Dl & Vl).
  eexists. split; [reflexivity|].
  unfold dotted. rewrite !dots_to_commas_app.
  rewrite (dots_to_commas_digits _ Da), (dots_to_commas_digits _ Db), (dots_to_commas_digits _ Dc), (dots_to_commas_digits _ Dd).
  change (dots_to_commas [DOT]) with [COMMA].
  replace (to_string a ++ [COMMA] ++ to_string b ++ [COMMA] ++ to_string c ++ [COMMA] ++ to_string d)
    with (join [COMMA] [to_string a; to_string b; to_string c; to_string d]) by reflexivity.
  match goal with |- try_parse_pasv_reply (pre ++ LPAR :: ?x ++ RPAR :: suf) = _ =>
    replace x with (join [COMMA] [to_string a; to_string b; to_string c; to_string d;
                                  to_string (p / 256); to_string (p mod 256)])
      by (cbn [join]; rewrite <- !app_assoc; reflexivity) end.
  rewrite (pasv_complete pre suf _ _ _ _ _ _ a b c d (p / 256) (p mod 256)); try assumption.
  - f_equal. f_equal. pose proof (N.div_mod p 256 ltac:(lia)) as DM.
    set (q := p / 256) in *. set (m := p mod 256) in *. clearbody q m. clear - DM. lia.
  - repeat split; auto. clear - Ha. lia.
  - repeat split; auto. clear - Hb. lia.
  - repeat split; auto. clear - Hc. lia.
  - repeat split; auto. clear - Hd. lia.
  - repeat split; auto. clear - Hhi. lia.
  - repeat split; auto. clear - Hlo. lia.
Qed.

(* PORT cannot express a non-IPv4 address: the command is refused, nothing is advertised *)
Theorem port_refuses_non_ipv4 t p : make_port_command (V6 t) p = None.
Proof. reflexivity. Qed.

Theorem port_ipv6_refuted_on_pinned :
  exists t p cmd, make_port_command_pinned (V6 t) p = Some cmd.
Proof. exists [58;58;49], 51210. eexists. reflexivity. Qed.

(* EPRT: family 1/2, textual address, decimal port, delimiter '|' - and the port field parses
   back to the port for all 65536 values; the same decimal form is what the 229 parser reads *)
Theorem eprt_wellformed ip p : p < 65536 ->
  make_eprt_command ip p =
    EPRT_ ++ [SP; BAR] ++ (match ip with V4 _ _ _ _ => [49] | V6 _ => [50] end) ++ [BAR] ++ addr_text ip
          ++ [BAR] ++ to_string p ++ [BAR] /\
  try_parse_uint16 (to_string p) = Some p /\
  (forall pre suf, mem LPAR pre = false -> mem RPAR suf = false ->
     try_parse_epsv_reply (pre ++ [LPAR; BAR; BAR; BAR] ++ to_string p ++ [BAR; RPAR] ++ suf) = Some p).
Proof.
  intro Hp. destruct (to_string_spec p ltac:(lia)) as (Np & Dp & Vp).
  assert (F : field (to_string p) 65535 p) by (repeat split; auto; clear - Hp; lia).
  split; [|split].
  - unfold make_eprt_command. rewrite <- ?app_assoc. reflexivity.
  - apply u16_field. exact F.
  - intros pre suf Mp Ms. apply epsv_iff. exists pre, BAR, (to_string p), suf.
    split; [|split; [unfold BAR; lia|exact F]].
    split; [|split; assumption]. cbn [app]. rewrite <- ?app_assoc. reflexivity.
Qed.
