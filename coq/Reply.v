(* Reply.v - model of ftp::reply (src/reply.cpp) and ftp::replies (src/replies.cpp). *)
From LibFtp Require Export Bytes.
Local Open Scope N_scope.

Record reply := mkReply { code : N; text : bytes }.

Definition unspecified : N := 65535.          (* std::numeric_limits<uint16_t>::max() *)
Definition default_reply : reply := mkReply unspecified [].

Definition is_positive (r : reply) : bool := negb (code r =? unspecified) && (code r <? 400).
Definition is_negative (r : reply) : bool := negb (code r =? unspecified) && (400 <=? code r).
Definition is_intermediate (r : reply) : bool :=
  negb (code r =? unspecified) && (300 <=? code r) && (code r <? 400).

Record replies := mkReplies { members : list reply; agg_positive : bool; agg_text : bytes }.

Definition empty_replies : replies := mkReplies [] false [].

Definition CRLF : bytes := [CR; LF].

(* replies::append *)
Definition append (rs : replies) (r : reply) : replies :=
  match members rs with
  | [] => mkReplies [r] (is_positive r) (agg_text rs ++ text r)
  | _ :: _ =>
      if is_positive r
      then mkReplies (members rs ++ [r]) (agg_positive rs) (agg_text rs ++ CRLF ++ text r)
      else mkReplies (members rs ++ [r]) false (agg_text rs ++ CRLF ++ text r)
  end.

Definition append_all (l : list reply) : replies := fold_left append l empty_replies.

(* specification of the aggregate *)
Definition spec_positive (l : list reply) : bool :=
  match l with [] => false | _ => forallb is_positive l end.
Definition spec_text (l : list reply) : bytes := join CRLF (map text l).
