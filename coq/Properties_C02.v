(* C02 - session lockstep: each call returns exactly the replies to its own commands. *)
From LibFtp Require Import Bytes Decimal Reply Endpoint Ascii DataConn DataConn_Proofs Client Client_Proofs Login_Proofs Transfer_Proofs Transfer_More Modes_Proofs Ctl_Proofs History_Proofs History2_Proofs Session_Proofs Returns_Global.
Local Open Scope N_scope.

(* The unit of lockstep: from a state in which nothing is unread or pending, "send one command, receive its reply"
   consumes exactly the peer's reaction to THAT command (tagged with the command's ordinal), hands its reply to the
   continuation, and leaves nothing unread - for every command text, every reply code other than 421 and text,
   every observer list, every continuation. Every call of the client is built from this step. *)
Theorem C02_command_reply_step : forall verb arg k w r rest x,
  ready w -> w_cur w = r :: rest -> simple_reaction r x -> arg_ok arg ->
  run (process_command verb arg k) w = run (k x) (after_command w (line_of verb arg) x) /\
  (w_pending w = [] ->
     ready (after_command w (line_of verb arg) x) /\ w_cur (after_command w (line_of verb arg) x) = rest /\
     w_pending (after_command w (line_of verb arg) x) = []).
Proof.
  intros verb arg k w r rest x Hr Hc Hs Ha. split; [exact (pc_step verb arg k w r rest x Hr Hc Hs Ha)|].
  intro Hp. destruct (after_command_facts w (line_of verb arg) x r rest Hr Hc Hs Hp) as (A & B & C & _). auto.
Qed.
Print Assumptions C02_command_reply_step.

(* whole calls: a simple call / TYPE / rename return exactly the replies generated for their own commands and leave
   the session in step (ready, nothing pending) - so the induction over histories of such calls goes through *)
Theorem C02_simple_call_in_step : forall w verb arg r rest x,
  ready w -> w_pending w = [] -> w_cur w = r :: rest -> simple_reaction r x -> arg_ok arg ->
  exists w', step w (ASimple verb arg) = (OReturn (RvReply x), w') /\ ready w' /\ w_pending w' = [] /\ w_cur w' = rest.
Proof.
  intros w verb arg r rest x Hr Hp Hc Hs Ha.
  destruct (simple_call w verb arg r rest x Hr Hp Hc Hs Ha) as (w' & E & A & B & C & _). exists w'. auto.
Qed.
Print Assumptions C02_simple_call_in_step.

(* a history of simple calls against a peer that answers each command with one reply: the k-th call returns the
   k-th reply, nothing is ever left over *)
Theorem C02_lockstep_simple_histories : forall (calls : list (bytes * option bytes)) (rs : list reaction) (xs : list reply) w rest,
  ready w -> w_pending w = [] -> w_cur w = rs ++ rest ->
  Forall2 simple_reaction rs xs -> length calls = length rs -> Forall (fun c => arg_ok (snd c)) calls ->
  exists w', steps w (map (fun c => ASimple (fst c) (snd c)) calls) = (map (fun x => OReturn (RvReply x)) xs, w') /\
             ready w' /\ w_pending w' = [] /\ w_cur w' = rest.
Proof.
  induction calls as [|[verb arg] calls IH]; intros rs xs w rest Hr Hp Hc F L A.
  - destruct rs; [|discriminate]. inversion F; subst. exists w. cbn. auto.
  - destruct rs as [|r rs]; [discriminate|]. inversion F as [|? x ? xs' Hs F']; subst.
    inversion A as [|? ? Ha A']; subst. cbn [map steps fst snd].
    destruct (simple_call w verb arg r (rs ++ rest) x Hr Hp Hc Hs Ha) as (w1 & E & R1 & P1 & C1 & _).
    rewrite E. destruct (IH rs xs' w1 rest R1 P1 C1 F' ltac:(cbn in L; lia) A') as (w' & E' & R' & P' & C').
    rewrite E'. exists w'. auto.
Qed.
Print Assumptions C02_lockstep_simple_histories.

(* the greeting and REIN may be preceded by 120: both replies are read (see op_connect / op_logout) *)
Theorem C02_greeting_120_then_220 : forall h p login,
  exists body, op_connect h p login = match login with Some (u, pw) => CheckArg u (CheckArg pw body) | None => body end /\
  exists k2 k1, body = CtlConnect h p (Notify (OConnected h p) (Recv (fun g => if code g =? 120 then Recv (k2 g) else k1 g))).
Proof. intros. eexists. split; [reflexivity|]. eexists. eexists. reflexivity. Qed.
Print Assumptions C02_greeting_120_then_220.

(* whole transfers, passive modes (EPSV and PASV), binary type, no cancellation, for every payload and its segmentation:
   from a session in step, against a server that answers the set-up command positively, the transfer command with a
   preliminary reply and - when the client has closed the data connection - with the completion reply: the call returns
   exactly those three replies, in order, and the session is in step again (nothing unread, nothing held back, the
   peer's remaining script untouched): no later call can receive a reply of this one *)
Theorem C02_download_in_step : forall w path r1 r2 rest x1 x2 x3 ip port,
  insync w (r1 :: r2 :: rest) -> w_data w = None ->
  c_mode (w_cfg w) = Passive -> c_tls (w_cfg w) = false ->
  has_crlf path = false ->
  simple_reaction r1 x1 -> is_negative x1 = false -> passive_target (w_cfg w) x1 ip port ->
  dp_reachable (r_data r1) = true ->
  accepts_transfer r2 x2 x3 -> dp_end (r_data r2) = DEof ->
  exists w', step w (ADownload path None None) = (OReturn (RvReplies [x1; x2; x3]), w') /\
    insync w' rest /\ w_data w' = None /\ w_cfg w' = w_cfg w /\
    sink_bytes (io_events (skipn (length (w_trace w)) (w_trace w'))) = delivered (c_type (w_cfg w)) (concat (dp_segs (r_data r2))) /\
    wire_events (skipn (length (w_trace w)) (w_trace w')) =
      [WLine (setup_line (w_cfg w)); WReply x1; WLine (RETR_ ++ SP :: path); WReply x2; WReply x3] /\
    data_events (skipn (length (w_trace w)) (w_trace w')) =
      [DNewObj; DConnectTo ip port true; DTcpShutdown; DClose].
Proof. exact download_passive_complete. Qed.
Print Assumptions C02_download_in_step.

Theorem C02_upload_in_step : forall w u path chunks r1 r2 rest x1 x2 x3 ip port,
  insync w (r1 :: r2 :: rest) -> w_data w = None ->
  c_mode (w_cfg w) = Passive -> c_tls (w_cfg w) = false ->
  has_crlf path = false ->
  simple_reaction r1 x1 -> is_negative x1 = false -> passive_target (w_cfg w) x1 ip port ->
  dp_reachable (r_data r1) = true ->
  accepts_transfer r2 x2 x3 ->
  exists w', step w (AUpload u path chunks None) = (OReturn (RvReplies [x1; x2; x3]), w') /\
    insync w' rest /\ w_data w' = None /\ w_cfg w' = w_cfg w /\
    net_out_bytes (io_events (skipn (length (w_trace w)) (w_trace w'))) = sent (c_type (w_cfg w)) chunks /\
    wire_events (skipn (length (w_trace w)) (w_trace w')) =
      [WLine (setup_line (w_cfg w)); WReply x1; WLine (upverb_bytes u ++ SP :: path); WReply x2; WReply x3] /\
    data_events (skipn (length (w_trace w)) (w_trace w')) =
      [DNewObj; DConnectTo ip port true; DTcpShutdown; DClose].
Proof. exact upload_passive_complete. Qed.
Print Assumptions C02_upload_in_step.

Theorem C02_listing_in_step : forall w path names r1 r2 rest x1 x2 x3 ip port,
  insync w (r1 :: r2 :: rest) -> w_data w = None ->
  c_mode (w_cfg w) = Passive -> c_tls (w_cfg w) = false ->
  arg_ok path ->
  simple_reaction r1 x1 -> is_negative x1 = false -> passive_target (w_cfg w) x1 ip port ->
  dp_reachable (r_data r1) = true ->
  accepts_transfer r2 x2 x3 -> dp_end (r_data r2) = DEof ->
  exists w', step w (AList path names) = (OReturn (RvList [x1; x2; x3] (delivered (c_type (w_cfg w)) (concat (dp_segs (r_data r2))))), w') /\
    insync w' rest /\ w_data w' = None /\ w_cfg w' = w_cfg w /\
    wire_events (skipn (length (w_trace w)) (w_trace w')) =
      [WLine (setup_line (w_cfg w)); WReply x1; WLine (line_of (if names then NLST_ else LIST_) path); WReply x2; WReply x3] /\
    data_events (skipn (length (w_trace w)) (w_trace w')) =
      [DNewObj; DConnectTo ip port true; DTcpShutdown; DClose] /\
    obs_events (skipn (length (w_trace w)) (w_trace w')) =
      told (w_obs w) (ORequest (setup_line (w_cfg w))) ++ told (w_obs w) (OReply x1) ++
      told (w_obs w) (ORequest (line_of (if names then NLST_ else LIST_) path)) ++ told (w_obs w) (OReply x2) ++
      told (w_obs w) (OFileList (delivered (c_type (w_cfg w)) (concat (dp_segs (r_data r2))))) ++ told (w_obs w) (OReply x3).
Proof. exact list_passive_complete. Qed.
Print Assumptions C02_listing_in_step.

(* THE lockstep theorem over mixed histories. [history rfc calls script repliess] (History_Proofs.v) says: the calls are
   simple commands, TYPE, rename, login (every reply at every step), downloads, uploads (STOR / STOU / APPE), listings, downloads cancelled by the callback,
   transfers refused at the set-up command or at the transfer command, in any order and number, and [script] is the
   concatenation of what an RFC 959 server writes for each of them (one reply per command; preliminary + completion for an
   accepted transfer; 426 then the ABOR reply for a cancelled one), any codes, any texts, any payloads and segmentations.
   Then from a session in step (passive modes, no TLS): the k-th call returns exactly the replies generated for its own
   commands, and the session is in step again at the end - nothing unread, nothing held back, the rest of the peer's
   script untouched. (A prefix of a history is a history, so this holds after every call.) *)
Theorem C02_lockstep_mixed_histories : forall cs rss xss w rest,
  Inv w (rss ++ rest) -> history (c_rfc2428 (w_cfg w)) (c_type (w_cfg w)) cs rss xss ->
  map outcome_replies (fst (steps w cs)) = map Some xss /\ Inv (snd (steps w cs)) rest /\
  w_script (snd (steps w cs)) = w_script w.
Proof. exact lockstep_mixed_histories. Qed.
Print Assumptions C02_lockstep_mixed_histories.

(* ... and for EVERY configuration - passive and active modes, EPSV / PASV / EPRT / PORT, plain and TLS sessions
   ([historyK], History2_Proofs.v: as [history], with the accepted transfers and the refusals of all four data-connection
   methods, TLS data handshakes and shutdowns included; the kit = mode, RFC 2428 flag, TLS, advertised endpoint is fixed
   along the history and proved unchanged by every call) *)
Theorem C02_lockstep_all_configurations : forall cs rss xss w rest,
  InvK w (rss ++ rest) -> historyK (kit_of w) (c_type (w_cfg w)) cs rss xss ->
  map outcome_replies (fst (steps w cs)) = map Some xss /\ InvK (snd (steps w cs)) rest.
Proof. exact lockstep_all_configurations. Qed.
Print Assumptions C02_lockstep_all_configurations.

(* non-vacuity: see ex_history in History_Proofs.v (NOOP, download, TYPE A, refused upload, PWD) *)
Example C02_example_history_runs :
  let w0 := mkW (mkConfig Passive true TBinary false false) true false false O true false [] [] [] ex_script false false no_plan [] None no_io O 1%nat [] in
  map outcome_replies (fst (steps w0 ex_calls)) =
  map Some [[mkReply 200 []]; [mkReply 229 [40;124;124;124;53;124;41]; mkReply 150 []; mkReply 226 []]; [mkReply 200 [65]];
            [mkReply 229 [40;124;124;124;53;124;41]; mkReply 550 []]; [mkReply 257 []]].
Proof. vm_compute. reflexivity. Qed.

(* non-vacuity of the callback cases of [historyK] (ex_historyK, History2_Proofs.v): a download with a callback, then an
   upload cancelled after its last block *)
Example C02_example_historyK_runs :
  let w0 := mkW (mkConfig Passive true TBinary false false) true false false O true false [] [] [] exk_script false false no_plan [] None no_io O 1%nat [] in
  map outcome_replies (fst (steps w0 exk_calls)) =
  map Some [[mkReply 229 [40;124;124;124;53;124;41]; mkReply 150 []; mkReply 226 []];
            [mkReply 229 [40;124;124;124;53;124;41]; mkReply 150 []; mkReply 426 []; mkReply 226 [65]]].
Proof. vm_compute. reflexivity. Qed.

(* PARTIAL / recorded findings: (1) logout / connect inside mixed histories, transfers in the active modes or under
   TLS inside histories (the single-call theorems exist, see Transfer_More.v), the completion reply written together with
   the preliminary one, and the other ABOR orders are covered by the correspondence and the lockstep oracle of
   bin/props/proto.py; (2) process_abort reads a second
   reply only after 426 (Client.v, process_abort): against a server that had already completed the transfer, or that
   refuses ABOR, one reply stays unread - KNOWN-FINDING abor/first-reply-not-426 (see known_findings.txt);
   (3) logout() returns a single reply: after "120, 220" to REIN both are read but only the 220 is returned. *)
Definition c02_abor_script : list session :=
  [mkSess true false true (mkR [RReply (mkReply 220 [])] [] false false true no_plan)
     [mkR [RReply (mkReply 229 [40;124;124;124;53;124;41])] [] false false true (mkDP true true [] DEof true);
      mkR [RReply (mkReply 150 []); RReply (mkReply 226 [49])] [] false false true (mkDP true true [[1];[2]] DEof true);
      mkR [RReply (mkReply 226 [50])] [] false false true no_plan;
      mkR [RReply (mkReply 200 [])] [] false false true no_plan]].
Theorem C02_abor_lockstep_refuted :
  (* cancelled download, the server had finished: wire 150, 226, 226(ABOR); the call returns three replies and the
     NOOP that follows receives the reply that belonged to ABOR *)
  let w0 := init_world (mkConfig Passive true TBinary false false) c02_abor_script in
  fst (steps w0 [AConnect [104] 21 None; ADownload [102] (Some [false; true; true]) None; ASimple [78;79;79;80] None])
  = [OReturn (RvReplies [mkReply 220 []]);
     OReturn (RvReplies [mkReply 229 [40;124;124;124;53;124;41]; mkReply 150 []; mkReply 226 [49]]);
     OReturn (RvReply (mkReply 226 [50]))].
Proof. vm_compute. reflexivity. Qed.
Print Assumptions C02_abor_lockstep_refuted.

(* 120 followed by the final greeting: both are read and returned by connect, nothing stays unread *)
Theorem C02_greeting_120_then_220_read : forall w h p s srest g1 g2,
  w_open w = false -> w_script w = s :: srest -> s_reachable s = true -> c_tls (w_cfg w) = false ->
  r_now (s_greeting s) = [RReply g1; RReply g2] -> r_close_after (s_greeting s) = false ->
  code g1 = 120 -> code g2 <> 421 ->
  exists w', step w (AConnect h p None) = (OReturn (RvReplies [g1; g2]), w') /\
    insync w' (s_reactions s) /\ w_script w' = srest /\
    wire_events (skipn (length (w_trace w)) (w_trace w')) = [WReply g1; WReply g2].
Proof. exact connect_120_then_220. Qed.
Print Assumptions C02_greeting_120_then_220_read.

(* a cancelled download answered 426 + 226 to ABOR leaves the session in step *)
Theorem C02_cancelled_download_in_step : forall w path answers answers' answers'' ev r1 r2 r3 rest x1 x2 x4 x5 ip port pr,
  insync w (r1 :: r2 :: r3 :: rest) -> w_data w = None ->
  c_mode (w_cfg w) = Passive -> c_tls (w_cfg w) = false ->
  has_crlf path = false ->
  simple_reaction r1 x1 -> is_negative x1 = false -> passive_target (w_cfg w) x1 ip port ->
  dp_reachable (r_data r1) = true ->
  simple_reaction r2 x2 -> is_negative x2 = false ->
  data_recv (c_type (w_cfg w)) (mkSink None O) (dp_segs (r_data r2)) (dp_end (r_data r2)) (Some answers) = (ev, pr, Some answers') ->
  pr <> PThrow -> poll answers' = (true, answers'') ->
  r_now r3 = [RReply x4; RReply x5] -> r_on_close r3 = [] -> r_close_after r3 = false ->
  code x4 = 426 -> code x5 <> 421 ->
  exists w', step w (ADownload path (Some answers) None) = (OReturn (RvReplies [x1; x2; x4; x5]), w') /\
    insync w' rest /\ w_data w' = None /\ w_cfg w' = w_cfg w /\
    wire_events (skipn (length (w_trace w)) (w_trace w')) =
      [WLine (setup_line (w_cfg w)); WReply x1; WLine (RETR_ ++ SP :: path); WReply x2; WLine ABOR_; WReply x4; WReply x5] /\
    data_events (skipn (length (w_trace w)) (w_trace w')) = [DNewObj; DConnectTo ip port true; DClose] /\
    io_events (skipn (length (w_trace w)) (w_trace w')) = ev ++ [IoPoll true].
Proof. exact download_cancelled_passive. Qed.
Print Assumptions C02_cancelled_download_in_step.

(* a WHOLE SESSION - connect, any history of the kinds above, QUIT - from a disconnected client back to a disconnected client: every call returns exactly the replies to its own commands (the greeting for connect, the reply to QUIT for disconnect) *)
Theorem C02_whole_session : forall w0 h p s srest g cs rss xss rq xq,
  w_open w0 = false -> w_data w0 = None -> w_script w0 = s :: srest -> s_reachable s = true ->
  c_mode (w_cfg w0) = Passive -> c_tls (w_cfg w0) = false ->
  r_now (s_greeting s) = [RReply g] -> r_close_after (s_greeting s) = false -> code g <> 421 -> code g <> 120 ->
  s_reactions s = rss ++ [rq] ->
  history (c_rfc2428 (w_cfg w0)) (c_type (w_cfg w0)) cs rss xss -> simple_reaction rq xq ->
  let '(os, w') := steps w0 (AConnect h p None :: cs ++ [ADisconnect true]) in
  map outcome_replies os = map Some ([g] :: xss ++ [[xq]]) /\
  w_open w' = false /\ w_ssl w' = false /\ w_data w' = None /\ held w' = O /\ w_script w' = srest /\
  w_backlog w' = [] /\ w_pending w' = [].
Proof. exact whole_session. Qed.
Print Assumptions C02_whole_session.

(* ------------------------------------------------------------------ every call, every state, every server *)
(* [recvd tr]: the replies read from the control connection in the events tr, in order. A call that returns, returns what
   it read: connect, login, rename, transfers and listings ALL the replies read during the call, in that order - none
   swallowed, none invented, none repeated; the single-reply calls and logout the last reply read; disconnect the reply
   to QUIT or nothing ([retmatch]) *)
Theorem C02_call_returns_what_it_read : forall a w,
  exists tr, w_trace (snd (step w a)) = w_trace w ++ tr /\
    match fst (step w a) with OReturn v => retmatch v (recvd tr) | _ => True end.
Proof. exact step_returns_what_it_read. Qed.
Print Assumptions C02_call_returns_what_it_read.

Example C02_returns_example :
  let w0 := init_world (mkConfig Passive true TBinary false false) returns_script in
  let '(o, w) := step w0 (AConnect [104%N] 21%N (Some ([117%N], [112%N]))) in
  o = OReturn (RvReplies [mkReply 120 []; mkReply 220 []; mkReply 331 []; mkReply 230 []; mkReply 200 []]) /\
  recvd (w_trace w) = [mkReply 120 []; mkReply 220 []; mkReply 331 []; mkReply 230 []; mkReply 200 []].
Proof. exact returns_example. Qed.

(* ---- lockstep on the wire: every call, every state, every server (Lockstep_Global.v) ---- *)
From LibFtp Require Lockstep_Global.

(* within a call a command line is written only when every command line written before has been followed by a reply read:
   one command line per protocol step, never two in a row (ABOR follows the preliminary reply) *)
Theorem C02_one_command_line_per_reply : forall a w,
  exists tr, w_trace (snd (step w a)) = w_trace w ++ tr /\ Lockstep_Global.okhs false tr.
Proof. exact Lockstep_Global.step_one_command_line_per_reply. Qed.
Print Assumptions C02_one_command_line_per_reply.

Theorem C02_a_reply_between_two_command_lines : forall a w tr pre s o line post,
  w_trace (snd (step w a)) = w_trace w ++ tr -> tr = pre ++ EWire s o line :: post ->
  Lockstep_Global.hsafter false pre = false.
Proof. exact Lockstep_Global.a_reply_between_two_command_lines. Qed.
Print Assumptions C02_a_reply_between_two_command_lines.

Example C02_example_lockstep_with_abor :
  let w0 := init_world (mkConfig Passive true TBinary false false) Lockstep_Global.lockstep_script in
  let w1 := snd (steps w0 [AConnect [104] 21 None]) in
  let tr := skipn (length (w_trace w1)) (w_trace (snd (step w1 (ADownload [102] (Some [false; false; true; true]) None)))) in
  map (fun e => match e with EWire _ _ l => firstn 4 l | ERecv _ r => [code r] | _ => [] end)
      (filter (fun e => match e with EWire _ _ _ | ERecv _ _ => true | _ => false end) tr)
  = [[69;80;83;86]; [229]; [82;69;84;82]; [150]; [65;66;79;82]; [426]; [226]]
  /\ Lockstep_Global.okhs false tr.
Proof. exact Lockstep_Global.lockstep_example. Qed.
