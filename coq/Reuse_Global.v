(* Reuse_Global.v - C18 over EVERY call, every state and every behaviour of the server: the TLS handshake of every data
   connection offers for resumption exactly the session that the most recent successful handshake of the control connection
   established - when the context was created with session resumption - and no session at all otherwise. *)
From LibFtp Require Import Bytes Decimal Reply Endpoint DataConn Client Client_Proofs.
Local Open Scope N_scope.

(* [cur]: the session of the control connection (0: none) *)
Definition upd (cur : nat) (e : event) : nat :=
  match e with
  | ECtl (CHandshake true id) => id
  | ECtl (CSetSsl _) | ECtl CClose | ECtl (CConnect _ _ _) => O
  | _ => cur
  end.

Fixpoint okre (resume : bool) (cur : nat) (tr : list event) : Prop :=
  match tr with
  | [] => True
  | e :: tr' =>
      match e with
      | EData (DHandshake off _) => off = (if resume then Some cur else None)
      | _ => True
      end /\ okre resume (upd cur e) tr'
  end.

Fixpoint after (cur : nat) (tr : list event) : nat :=
  match tr with [] => cur | e :: tr' => after (upd cur e) tr' end.

Lemma okre_app r cur a b : okre r cur (a ++ b) <-> okre r cur a /\ okre r (after cur a) b.
Proof. revert cur. induction a as [|e a IH]; intro cur; cbn [app okre after]; [tauto|]. rewrite IH. tauto. Qed.

Lemma after_app cur a b : after cur (a ++ b) = after (after cur a) b.
Proof. revert cur. induction a as [|e a IH]; intro cur; cbn [app after]; [reflexivity|apply IH]. Qed.

(* events that neither are a data handshake nor touch the control session *)
Definition quiet (e : event) : Prop :=
  match e with
  | EData (DHandshake _ _) => False
  | ECtl (CHandshake true _) | ECtl (CSetSsl _) | ECtl CClose | ECtl (CConnect _ _ _) => False
  | _ => True
  end.

Lemma quiet_ok r cur es : Forall quiet es -> okre r cur es /\ after cur es = cur.
Proof.
  induction 1 as [|e es Q _ IH]; [split; [exact I|reflexivity]|]. cbn [okre after].
  assert (U : upd cur e = cur).
  { destruct e as [| | | | |c|d|]; try reflexivity. destruct c as [| |[|]| | |]; try reflexivity; destruct Q. }
  rewrite U. destruct IH as (A & B). split; [|exact B]. split; [|exact A].
  destruct e as [| | | | | |d|]; try exact I. destruct d; try exact I. destruct Q.
Qed.

Lemma q_obs obs e : Forall quiet (map (fun o => EObs o e) obs).
Proof. induction obs as [|o obs IH]; cbn; constructor; [exact I|exact IH]. Qed.
Lemma q_io ev : Forall quiet (map EIo ev).
Proof. induction ev as [|e ev IH]; cbn; constructor; [exact I|exact IH]. Qed.

(* [St r w w']: w' is w after a well-formed trace that also tracks the session of the control connection *)
Definition St (r : bool) (w w' : world) : Prop :=
  exists tr, w_trace w' = w_trace w ++ tr /\ okre r (w_sess_id w) tr /\ after (w_sess_id w) tr = w_sess_id w' /\
             c_resume (w_cfg w') = c_resume (w_cfg w).

Lemma St_refl r w : St r w w.
Proof. exists []. rewrite app_nil_r. repeat split. Qed.

Lemma St_trans r a b c : St r a b -> St r b c -> St r a c.
Proof.
  intros (t1 & E1 & O1 & A1 & C1) (t2 & E2 & O2 & A2 & C2). exists (t1 ++ t2). rewrite E2, E1, app_assoc. split; [reflexivity|].
  split; [apply okre_app; rewrite A1; split; assumption|]. split; [rewrite after_app, A1; exact A2|congruence].
Qed.

Lemma St_quiet r w w' es : w_trace w' = w_trace w ++ es -> Forall quiet es -> w_sess_id w' = w_sess_id w ->
  w_cfg w' = w_cfg w -> St r w w'.
Proof.
  intros E Q S C. destruct (quiet_ok r (w_sess_id w) es Q) as (A & B). exists es. split; [exact E|]. split; [exact A|].
  split; [rewrite B, S; reflexivity|rewrite C; reflexivity].
Qed.

Lemma St_notify r w e : St r w (notify w e).
Proof. apply (St_quiet _ _ _ (map (fun o => EObs o e) (w_obs w))); [reflexivity|apply q_obs|reflexivity|reflexivity]. Qed.

Ltac qall := repeat (first [apply Forall_nil | apply Forall_cons; [exact I|]]).
Ltac sq := first
  [ apply (St_quiet _ _ _ []); [cbn [w_trace emit set_trace set_queues set_io set_data set_cfg set_ctl set_obs release_pending notify];
                               rewrite ?app_nil_r; reflexivity|constructor|reflexivity|reflexivity]
  | (eapply St_quiet; [cbn [w_trace emit set_trace set_queues set_io set_data set_cfg set_ctl set_obs release_pending notify];
                       rewrite <- ?app_assoc; reflexivity|qall|reflexivity|reflexivity]) ].

Lemma peer_react_same w : w_cfg (peer_react w) = w_cfg w /\ w_sess_id (peer_react w) = w_sess_id w.
Proof. unfold peer_react. destruct (w_cur w); split; reflexivity. Qed.

Lemma St_do_send r w line w' : do_send w line = Some w' -> St r w w'.
Proof.
  unfold do_send. destruct (negb _); [discriminate|]. destruct (_ && negb _); [discriminate|].
  set (w1 := notify w (ORequest line)).
  assert (G1 : St r w w1) by apply St_notify.
  destruct (w_peer_closed w1); intro H; inversion H; subst; clear H.
  - eapply St_trans; [exact G1|]. sq.
  - eapply St_trans; [exact G1|].
    match goal with |- St r w1 (peer_react ?W) => apply (St_trans _ _ W) end.
    + sq.
    + destruct (peer_react_same (emit w1 [EWire (w_ssl w1 && w_tls_up w1) (w_ord w1) line])) as (A & B).
      apply (St_quiet _ _ _ []); [rewrite app_nil_r; apply peer_react_trace|constructor|exact B|exact A].
Qed.

Lemma St_close_data r w : St r w (close_data w).
Proof.
  unfold close_data. destruct (w_data w) as [d|]; [|apply St_refl].
  destruct (d_sock d), (d_acc d); cbv zeta.
  - apply (St_quiet _ _ _ [EData DClose; EData DAccClose]); [cbn [w_trace set_data emit set_trace release_pending set_queues]; rewrite <- app_assoc; reflexivity|qall|reflexivity|reflexivity].
  - apply (St_quiet _ _ _ [EData DClose]); [reflexivity|qall|reflexivity|reflexivity].
  - apply (St_quiet _ _ _ [EData DAccClose]); [reflexivity|qall|reflexivity|reflexivity].
  - apply (St_quiet _ _ _ []); [rewrite app_nil_r; reflexivity|constructor|reflexivity|reflexivity].
Qed.

(* closing the control connection: the session is gone *)
Lemma St_ctl_disconnect r w : St r w (snd (ctl_disconnect w)).
Proof.
  unfold ctl_disconnect. cbn [snd].
  eexists. split; [cbn [w_trace set_queues set_ctl emit set_trace]; reflexivity|].
  destruct (w_ssl w); cbn [app okre after upd w_sess_id set_queues set_ctl w_cfg]; repeat split.
Qed.

Lemma run_re : forall p r w, c_resume (w_cfg w) = r -> St r w (snd (run p w)).
Proof.
  induction p as [v| |a k IH|verb arg k IH|line k IH|a k IH|k IH|e k IH|k IH|t k IH|k IH|k IH|h pt k IH|on k IH|k IH|k IH|k IH
                 |k IH|ip port k IH|k IH|k IH|k IH|g k IH|k IH|k IH|k IH|k IH|body IH]; intros r w T; cbn [run].
  - apply St_refl.
  - apply St_refl.
  - destruct (has_crlf a); [apply St_refl|apply IH; exact T].
  - destruct arg as [a|].
    + destruct (has_crlf a); [apply St_refl|].
      destruct (do_send w _) as [w'|] eqn:X; cbn [snd]; [|apply St_notify].
      pose proof (St_do_send r _ _ _ X) as G. eapply St_trans; [exact G|]. apply IH. destruct G as (_ & _ & _ & _ & C). rewrite C; exact T.
    + destruct (do_send w _) as [w'|] eqn:X; cbn [snd]; [|apply St_notify].
      pose proof (St_do_send r _ _ _ X) as G. eapply St_trans; [exact G|]. apply IH. destruct G as (_ & _ & _ & _ & C). rewrite C; exact T.
  - destruct (do_send w _) as [w'|] eqn:X; cbn [snd]; [|apply St_notify].
    pose proof (St_do_send r _ _ _ X) as G. eapply St_trans; [exact G|]. apply IH. destruct G as (_ & _ & _ & _ & C). rewrite C; exact T.
  - destruct (match a with AdvEprt => Some (make_eprt_command _ _) | AdvPort => _ end) as [line|]; [|apply St_refl].
    destruct (do_send w _) as [w'|] eqn:X; cbn [snd]; [|apply St_notify].
    pose proof (St_do_send r _ _ _ X) as G. eapply St_trans; [exact G|]. apply IH. destruct G as (_ & _ & _ & _ & C). rewrite C; exact T.
  - (* Recv *)
    destruct (negb (w_open w)); [apply St_refl|].
    destruct (w_backlog w) as [|[t [x|]] rest].
    + destruct (w_peer_closed w); apply St_refl.
    + set (w1 := emit (set_queues w rest (w_pending w)) [ERecv t x]).
      assert (G1 : St r w w1) by (unfold w1; sq).
      destruct (code x =? 421).
      * destruct (ctl_disconnect w1) as [ok w2] eqn:D.
        pose proof (St_ctl_disconnect r w1) as G2. rewrite D in G2. cbn [snd] in G2.
        assert (C2 : c_resume (w_cfg w2) = r).
        { destruct G2 as (_ & _ & _ & _ & C). rewrite C. exact T. }
        destruct ok; cbn [snd].
        -- eapply St_trans; [exact G1|]. eapply St_trans; [exact G2|]. eapply St_trans; [apply St_notify|]. apply IH. exact C2.
        -- eapply St_trans; [exact G1|exact G2].
      * eapply St_trans; [exact G1|]. eapply St_trans; [apply St_notify|]. apply IH. exact T.
    + cbn [snd]. sq.
  - eapply St_trans; [apply St_notify|]. apply IH. exact T.
  - apply IH. exact T.
  - (* SetTypeCfg *)
    eapply St_trans; [|apply IH; exact T].
    exists [ESetType t]. repeat split.
  - apply IH. exact T.
  - apply IH. exact T.
  - (* CtlConnect: whatever happens, the session of the old connection is gone *)
    match goal with |- context [match w_script ?w0 with _ => _ end] => set (W0 := w0) end.
    destruct (w_script W0) as [|s rest] eqn:Sc; cbn [snd].
    + unfold W0. destruct (w_open w); eexists; (split; [cbn [w_trace set_queues set_ctl emit set_trace]; rewrite <- ?app_assoc; reflexivity|]);
        cbn [app okre after upd w_sess_id set_queues set_ctl w_cfg emit set_trace]; repeat split.
    + destruct (negb (s_reachable s)); cbn [snd].
      * unfold W0. destruct (w_open w); eexists; (split; [cbn [w_trace set_queues set_ctl emit set_trace]; rewrite <- ?app_assoc; reflexivity|]);
          cbn [app okre after upd w_sess_id set_queues set_ctl w_cfg emit set_trace]; repeat split.
      * match goal with |- context [run k ?W] => set (W1 := W) end.
        assert (G1 : St r w W1).
        { unfold W1, W0. destruct (w_open w); eexists; (split; [cbn [w_trace set_queues set_ctl emit set_trace]; rewrite <- ?app_assoc; reflexivity|]);
            cbn [app okre after upd w_sess_id set_queues set_ctl w_cfg emit set_trace]; repeat split. }
        eapply St_trans; [exact G1|]. apply IH. destruct G1 as (_ & _ & _ & _ & C). rewrite C. exact T.
  - (* CtlSetSsl *)
    match goal with |- context [run k ?W] => set (W1 := W) end.
    assert (G1 : St r w W1).
    { unfold W1. eexists. split; [cbn [w_trace set_ctl emit set_trace]; reflexivity|]. cbn [okre after upd w_sess_id set_ctl emit set_trace w_cfg]. repeat split. }
    eapply St_trans; [exact G1|]. apply IH. destruct G1 as (_ & _ & _ & _ & C). rewrite C. exact T.
  - (* CtlHandshake *)
    destruct (w_last_tls_ok w && negb (w_peer_closed w)); cbn [snd].
    + match goal with |- context [run k ?W] => set (W1 := W) end.
      assert (G1 : St r w W1).
      { unfold W1. eexists. split; [cbn [w_trace set_ctl emit set_trace]; reflexivity|]. cbn [okre after upd w_sess_id set_ctl emit set_trace w_cfg]. repeat split. }
      eapply St_trans; [exact G1|]. apply IH. destruct G1 as (_ & _ & _ & _ & C). rewrite C. exact T.
    + sq.
  - destruct (w_tls_up w && w_tls_clean w && negb (w_peer_closed w)); cbn [snd]; [eapply St_trans; [|apply IH; exact T]|]; sq.
  - destruct (ctl_disconnect w) as [ok w1] eqn:D.
    pose proof (St_ctl_disconnect r w) as G2. rewrite D in G2. cbn [snd] in G2.
    destruct ok; cbn [snd]; [|exact G2].
    eapply St_trans; [exact G2|]. apply IH. destruct G2 as (_ & _ & _ & _ & C). rewrite C. exact T.
  - eapply St_trans; [|apply IH; exact T]. sq.
  - destruct (dp_reachable (w_plan w)); cbn [snd]; [eapply St_trans; [|apply IH; exact T]|]; sq.
  - eapply St_trans; [|apply IH; exact T]. sq.
  - destruct (dp_reachable (w_plan w)); cbn [snd]; [eapply St_trans; [|apply IH; exact T]; sq|apply St_refl].
  - (* DHandshakeP: offers the control session iff resumption is configured *)
    destruct (dp_tls_ok (w_plan w)); cbn [snd].
    + match goal with |- context [run k ?W] => set (W1 := W) end.
      assert (G1 : St r w W1).
      { unfold W1. eexists. split; [cbn [w_trace set_data emit set_trace]; reflexivity|].
        cbn [okre after upd w_sess_id set_data emit set_trace w_cfg]. rewrite T. repeat split. }
      eapply St_trans; [exact G1|]. apply IH. exact T.
    + eexists. split; [cbn [w_trace set_data emit set_trace]; reflexivity|].
      cbn [okre after upd w_sess_id set_data emit set_trace w_cfg]. rewrite T. repeat split.
  - destruct (w_data w) as [d|]; [|apply IH; exact T].
    destruct (d_ssl d && negb (dp_shutdown_ok (w_plan w))); cbn [snd]; [sq|].
    match goal with |- context [close_data ?W] => set (W1 := W) end.
    assert (G1 : St r w (close_data W1)).
    { eapply St_trans; [|apply St_close_data]. unfold W1. destruct (d_ssl d), g; cbn [app]; sq. }
    eapply St_trans; [exact G1|]. apply IH. destruct G1 as (_ & _ & _ & _ & C). rewrite C. exact T.
  - destruct (data_recv _ _ _ _ _) as [[ev x] cb'].
    match goal with |- context [set_io ?A0 ?B0] => set (W1 := set_io A0 B0) end.
    assert (G1 : St r w W1) by (unfold W1; apply (St_quiet _ _ _ (map EIo ev)); [reflexivity|apply q_io|reflexivity|reflexivity]).
    destruct x; cbn [snd]; try exact G1; (eapply St_trans; [exact G1|apply IH; exact T]).
  - destruct (data_recv _ _ _ _ _) as [[ev x] cb'].
    match goal with |- context [emit w ?Z] => set (W1 := emit w Z) end.
    assert (G1 : St r w W1) by (unfold W1; apply (St_quiet _ _ _ (map EIo ev)); [reflexivity|apply q_io|reflexivity|reflexivity]).
    destruct x; cbn [snd]; try exact G1; (eapply St_trans; [exact G1|apply IH; exact T]).
  - destruct (data_send _ _ _ _) as [[ev x] cb'].
    match goal with |- context [set_io ?A0 ?B0] => set (W1 := set_io A0 B0) end.
    assert (G1 : St r w W1) by (unfold W1; apply (St_quiet _ _ _ (map EIo ev)); [reflexivity|apply q_io|reflexivity|reflexivity]).
    destruct x; cbn [snd]; try exact G1; (eapply St_trans; [exact G1|apply IH; exact T]).
  - destruct (io_cb (w_io w)) as [answers|]; [|apply IH; exact T].
    destruct (poll answers) as [a answers']. eapply St_trans; [|apply IH; exact T]. sq.
  - (* Scope *)
    destruct (run body w) as [o w1] eqn:Rn. cbn [snd].
    pose proof (IH r w T) as G1. rewrite Rn in G1. cbn [snd] in G1.
    eapply St_trans; [exact G1|]. eapply St_trans; [apply St_close_data|]. sq.
Qed.

(* every call, every state, every server: each data handshake offers the session of the control connection's most recent
   handshake iff the context has session resumption *)
Theorem step_offers_the_control_session a w :
  exists tr, w_trace (snd (step w a)) = w_trace w ++ tr /\ okre (c_resume (w_cfg w)) (w_sess_id w) tr.
Proof.
  assert (ST : forall p i, exists tr, w_trace (snd (run p (set_io w i))) = w_trace w ++ tr /\ okre (c_resume (w_cfg w)) (w_sess_id w) tr).
  { intros p i. destruct (run_re p (c_resume (w_cfg w)) (set_io w i) eq_refl) as (tr & X & O & _). exists tr. split; [exact X|exact O]. }
  destruct a; unfold step; try apply ST; exists []; rewrite app_nil_r; split; [reflexivity|exact I|reflexivity|exact I|reflexivity|exact I|reflexivity|exact I].
Qed.

(* ... over whole histories *)
Theorem history_offers_the_control_session : forall cs w,
  exists tr, w_trace (snd (steps w cs)) = w_trace w ++ tr /\ okre (c_resume (w_cfg w)) (w_sess_id w) tr.
Proof.
  assert (SS : forall a w, St (c_resume (w_cfg w)) w (snd (step w a))).
  { intros a w.
    assert (RN : forall p i, St (c_resume (w_cfg w)) w (snd (run p (set_io w i)))).
    { intros p i. eapply St_trans; [|apply run_re; reflexivity]. sq. }
    destruct a; unfold step; try apply RN; exists []; rewrite app_nil_r; repeat split. }
  assert (HH : forall cs w, St (c_resume (w_cfg w)) w (snd (steps w cs))).
  { induction cs as [|a cs IH]; intro w; [apply St_refl|].
    cbn [steps]. pose proof (SS a w) as G. destruct (step w a) as [o w1]. cbn [snd] in G.
    assert (C : c_resume (w_cfg w1) = c_resume (w_cfg w)) by (destruct G as (_ & _ & _ & _ & C); exact C).
    destruct o.
    - pose proof (IH w1) as G2. rewrite C in G2. destruct (steps w1 cs) as [os w2]. cbn [snd] in *. eapply St_trans; eassumption.
    - pose proof (IH w1) as G2. rewrite C in G2. destruct (steps w1 cs) as [os w2]. cbn [snd] in *. eapply St_trans; eassumption.
    - cbn [snd]. exact G. }
  intros cs w. destruct (HH cs w) as (tr & X & O & _). exists tr. split; assumption.
Qed.

(* non-vacuity: two TLS downloads on one control connection, a reconnect, a third download: sessions 1, 1, 2 *)
Definition reuse_script : list session :=
  let ok c := mkR [RReply (mkReply c [])] [] false false true no_plan in
  let epsv := mkR [RReply (mkReply 229 [40;124;124;124;53;124;41])] [] false false true (mkDP true true [] DEof true) in
  let retr := mkR [RReply (mkReply 150 []); RReply (mkReply 226 [])] [] false false true (mkDP true true [[1]] DEof true) in
  [mkSess true false true (ok 220) [ok 234; epsv; retr; epsv; retr; ok 221];
   mkSess true false true (ok 220) [ok 234; epsv; retr]].

Example reuse_example :
  let w0 := init_world (mkConfig Passive true TBinary true true) reuse_script in
  let tr := w_trace (snd (steps w0 [AConnect [104] 21 None; ADownload [102] None None; ADownload [102] None None;
                                    ADisconnect true; AConnect [104] 21 None; ADownload [102] None None])) in
  okre true O tr /\
  map (fun e => match e with EData (DHandshake off _) => off | _ => None end)
      (filter (fun e => match e with EData (DHandshake _ _) => true | _ => false end) tr) = [Some 1%nat; Some 1%nat; Some 2%nat].
Proof. vm_compute. repeat split. Qed.
