(* C12 - transfer callbacks bracket and count the transfer; cancellation stops and aborts. *)
From LibFtp Require Import Bytes Ascii DataConn DataConn_Proofs Reply Client.
Local Open Scope N_scope.

(* upload: poll first; cancelled at once => nothing else happens (no begin, no end, no byte);
   otherwise begin once, then blocks, end once at the very end; the sum of notify equals the bytes written;
   after the first poll that answers true no further block is written *)
Theorem C12_callback_send : forall t blk chunks answers ev r cb',
  data_send t blk chunks (Some answers) = (ev, r, cb') ->
  match answers with
  | true :: _ => ev = [IoPoll true] /\ r = PCancelledBeforeStart
  | _ =>
      exists body, ev = IoPoll false :: IoBegin :: body ++ [IoEnd] /\
        count_ev is_begin body = O /\ count_ev is_end body = O /\
        notified ev = length (net_out_bytes ev) /\
        (r = PCancelled -> exists pre, body = pre ++ [IoPoll true] /\ count_ev is_poll_true pre = O) /\
        (r = PDone -> count_ev is_poll_true body = O) /\ (r = PDone \/ r = PCancelled)
  end.
Proof. exact callback_send. Qed.
Print Assumptions C12_callback_send.

(* download: the same bracket; after the poll that answers true no further network read takes place (only the
   flush of what was already received) *)
Theorem C12_callback_recv : forall t s segs e answers ev r cb',
  data_recv t s segs e (Some answers) = (ev, r, cb') ->
  match answers with
  | true :: _ => ev = [IoPoll true] /\ r = PCancelledBeforeStart
  | _ =>
      exists body, ev = IoPoll false :: IoBegin :: body ++ (match r with PThrow => [] | _ => [IoEnd] end) /\
        count_ev is_begin body = O /\ count_ev is_end body = O /\
        (r = PCancelled -> exists pre rest, body = pre ++ IoPoll true :: rest /\ count_ev is_poll_true pre = O /\
                                            count_ev is_net rest = O) /\
        (r = PDone -> count_ev is_poll_true body = O)
  end.
Proof. exact callback_recv. Qed.
Print Assumptions C12_callback_recv.

(* binary download: the sum of the notify arguments equals the bytes read from the data connection *)
Theorem C12_notify_counts_recv : forall segs s e cb ev r p s' cb', good_sink s -> cb <> None ->
  recv_loop TBinary false s segs e cb = (ev, r, p, s', cb') -> notified ev = length (net_in_bytes ev).
Proof. intros segs s e cb ev r p s' cb' G N H. exact (proj1 (proj2 (recv_loop_binary _ _ _ _ _ _ _ _ _ G H)) N). Qed.
Print Assumptions C12_notify_counts_recv.

(* the program run after the data loop: a poll; if it answers true: ABOR is sent, its replies (a second one after
   426) are collected, and the data connection is closed without the graceful TCP shutdown *)
Theorem C12_cancel_aborts : forall acc,
  process_abort acc (fun acc' => DDisconnect false (Ret (RvReplies acc'))) =
  Send ABOR_ None (Recv (fun r =>
    if (code r =? 426) then Recv (fun r2 => DDisconnect false (Ret (RvReplies (acc ++ [r; r2]))))
    else DDisconnect false (Ret (RvReplies (acc ++ [r]))))).
Proof. reflexivity. Qed.
Print Assumptions C12_cancel_aborts.

Example C12_example :
  let '(ev, r, _) := data_recv TBinary (mkSink None O) [[1]; [2]; [3]] DEof (Some [false; false; true]) in
  r = PCancelled /\ notified ev = 2%nat /\ sink_bytes ev = [1; 2].
Proof. vm_compute. auto. Qed.
