(* C12 - transfer callbacks bracket and count the transfer; cancellation stops and aborts. *)
From LibFtp Require Import Bytes Reply Endpoint Ascii DataConn DataConn_Proofs Client Client_Proofs Login_Proofs Transfer_Proofs Transfer_More Transfer_Cb Abor_Global.
Local Open Scope N_scope.

(* upload: poll first; cancelled at once => nothing else happens (no begin, no end, no byte);
   otherwise begin once, then blocks, end once at the very end; the sum of notify equals the bytes written;
   after the first poll that answers true no further block is written *)
Theorem C12_callback_send : forall t blk chunks answers ev r cb',
  data_send t blk chunks (Some answers) = (ev, r, cb') ->
  match answers with
  | true :: _ => ev = [IoPoll true] /\ r = PCancelledBeforeStart
  | _ =>
      exists body, ev = IoPoll false :: IoBegin :: body ++ [IoEnd] /\
        count_ev is_begin body = O /\ count_ev is_end body = O /\
        notified ev = length (net_out_bytes ev) /\
        (r = PCancelled -> exists pre, body = pre ++ [IoPoll true] /\ count_ev is_poll_true pre = O) /\
        (r = PDone -> count_ev is_poll_true body = O) /\ (r = PDone \/ r = PCancelled)
  end.
Proof. exact callback_send. Qed.
Print Assumptions C12_callback_send.

(* download: the same bracket; after the poll that answers true no further network read takes place (only the
   flush of what was already received) *)
Theorem C12_callback_recv : forall t s segs e answers ev r cb',
  data_recv t s segs e (Some answers) = (ev, r, cb') ->
  match answers with
  | true :: _ => ev = [IoPoll true] /\ r = PCancelledBeforeStart
  | _ =>
      exists body, ev = IoPoll false :: IoBegin :: body ++ (match r with PThrow => [] | _ => [IoEnd] end) /\
        count_ev is_begin body = O /\ count_ev is_end body = O /\
        (r = PCancelled -> exists pre rest, body = pre ++ IoPoll true :: rest /\ count_ev is_poll_true pre = O /\
                                            count_ev is_net rest = O) /\
        (r = PDone -> count_ev is_poll_true body = O)
  end.
Proof. exact callback_recv. Qed.
Print Assumptions C12_callback_recv.

(* binary download: the sum of the notify arguments equals the bytes read from the data connection *)
Theorem C12_notify_counts_recv : forall segs s e cb ev r p s' cb', good_sink s -> cb <> None ->
  recv_loop TBinary false s segs e cb = (ev, r, p, s', cb') -> notified ev = length (net_in_bytes ev).
Proof. intros segs s e cb ev r p s' cb' G N H. exact (proj1 (proj2 (recv_loop_binary _ _ _ _ _ _ _ _ _ G H)) N). Qed.
Print Assumptions C12_notify_counts_recv.

(* the program run after the data loop: a poll; if it answers true: ABOR is sent, its replies (a second one after
   426) are collected, and the data connection is closed without the graceful TCP shutdown *)
Theorem C12_cancel_aborts : forall acc,
  process_abort acc (fun acc' => DDisconnect false (Ret (RvReplies acc'))) =
  Send ABOR_ None (Recv (fun r =>
    if (code r =? 426) then Recv (fun r2 => DDisconnect false (Ret (RvReplies (acc ++ [r; r2]))))
    else DDisconnect false (Ret (RvReplies (acc ++ [r]))))).
Proof. reflexivity. Qed.
Print Assumptions C12_cancel_aborts.

Example C12_example :
  let '(ev, r, _) := data_recv TBinary (mkSink None O) [[1]; [2]; [3]] DEof (Some [false; false; true]) in
  r = PCancelled /\ notified ev = 2%nat /\ sink_bytes ev = [1; 2].
Proof. vm_compute. auto. Qed.

(* a whole cancelled download (passive modes, any transfer type): ABOR is sent after the data loop stopped, the 426 and the following reply are both read and returned, the data socket is closed without graceful shutdown, the session stays in step *)
Theorem C12_cancelled_download_aborts : forall w path answers answers' answers'' ev r1 r2 r3 rest x1 x2 x4 x5 ip port pr,
  insync w (r1 :: r2 :: r3 :: rest) -> w_data w = None ->
  c_mode (w_cfg w) = Passive -> c_tls (w_cfg w) = false ->
  has_crlf path = false ->
  simple_reaction r1 x1 -> is_negative x1 = false -> passive_target (w_cfg w) x1 ip port ->
  dp_reachable (r_data r1) = true ->
  simple_reaction r2 x2 -> is_negative x2 = false ->
  data_recv (c_type (w_cfg w)) (mkSink None O) (dp_segs (r_data r2)) (dp_end (r_data r2)) (Some answers) = (ev, pr, Some answers') ->
  pr <> PThrow -> poll answers' = (true, answers'') ->
  r_now r3 = [RReply x4; RReply x5] -> r_on_close r3 = [] -> r_close_after r3 = false ->
  code x4 = 426 -> code x5 <> 421 ->
  exists w', step w (ADownload path (Some answers) None) = (OReturn (RvReplies [x1; x2; x4; x5]), w') /\
    insync w' rest /\ w_data w' = None /\ w_cfg w' = w_cfg w /\
    wire_events (skipn (length (w_trace w)) (w_trace w')) =
      [WLine (setup_line (w_cfg w)); WReply x1; WLine (RETR_ ++ SP :: path); WReply x2; WLine ABOR_; WReply x4; WReply x5] /\
    data_events (skipn (length (w_trace w)) (w_trace w')) = [DNewObj; DConnectTo ip port true; DClose] /\
    io_events (skipn (length (w_trace w)) (w_trace w')) = ev ++ [IoPoll true].
Proof. exact download_cancelled_passive. Qed.
Print Assumptions C12_cancelled_download_aborts.

(* C12 on whole calls that are given a callback which never cancels (passive modes, any transfer type): the call
   completes, and the callback saw: a negative poll, begin, the blocks (no other begin / end, no positive poll),
   end, and the client's final negative poll *)
Theorem C12_download_with_callback_brackets : forall w path answers answers' answers'' ev r1 r2 rest x1 x2 x3 ip port,
  insync w (r1 :: r2 :: rest) -> w_data w = None ->
  c_mode (w_cfg w) = Passive -> c_tls (w_cfg w) = false ->
  has_crlf path = false ->
  simple_reaction r1 x1 -> is_negative x1 = false -> passive_target (w_cfg w) x1 ip port ->
  dp_reachable (r_data r1) = true ->
  accepts_transfer r2 x2 x3 ->
  data_recv (c_type (w_cfg w)) (mkSink None O) (dp_segs (r_data r2)) (dp_end (r_data r2)) (Some answers) = (ev, PDone, Some answers') ->
  poll answers' = (false, answers'') ->
  exists w' body, step w (ADownload path (Some answers) None) = (OReturn (RvReplies [x1; x2; x3]), w') /\
    io_events (skipn (length (w_trace w)) (w_trace w')) = IoPoll false :: IoBegin :: body ++ [IoEnd; IoPoll false] /\
    count_ev is_begin body = O /\ count_ev is_end body = O /\ count_ev is_poll_true body = O.
Proof. exact download_with_callback_brackets. Qed.
Print Assumptions C12_download_with_callback_brackets.

Theorem C12_upload_with_callback_brackets : forall w u path chunks answers answers' answers'' ev r1 r2 rest x1 x2 x3 ip port,
  insync w (r1 :: r2 :: rest) -> w_data w = None ->
  c_mode (w_cfg w) = Passive -> c_tls (w_cfg w) = false ->
  has_crlf path = false ->
  simple_reaction r1 x1 -> is_negative x1 = false -> passive_target (w_cfg w) x1 ip port ->
  dp_reachable (r_data r1) = true ->
  accepts_transfer r2 x2 x3 ->
  data_send (c_type (w_cfg w)) block_size chunks (Some answers) = (ev, PDone, Some answers') ->
  poll answers' = (false, answers'') ->
  exists w' body, step w (AUpload u path chunks (Some answers)) = (OReturn (RvReplies [x1; x2; x3]), w') /\
    io_events (skipn (length (w_trace w)) (w_trace w')) = IoPoll false :: IoBegin :: body ++ [IoEnd; IoPoll false] /\
    count_ev is_begin body = O /\ count_ev is_end body = O /\ count_ev is_poll_true body = O /\
    notified body = length (net_out_bytes body).
Proof. exact upload_with_callback_brackets. Qed.
Print Assumptions C12_upload_with_callback_brackets.

(* a whole cancelled upload: ABOR after the data loop stopped, both replies read and returned, data socket closed *)
Theorem C12_cancelled_upload_aborts : forall w u path chunks answers answers' answers'' ev r1 r2 r3 rest x1 x2 x4 x5 ip port pr,
  insync w (r1 :: r2 :: r3 :: rest) -> w_data w = None ->
  c_mode (w_cfg w) = Passive -> c_tls (w_cfg w) = false ->
  has_crlf path = false ->
  simple_reaction r1 x1 -> is_negative x1 = false -> passive_target (w_cfg w) x1 ip port ->
  dp_reachable (r_data r1) = true ->
  simple_reaction r2 x2 -> is_negative x2 = false ->
  data_send (c_type (w_cfg w)) block_size chunks (Some answers) = (ev, pr, Some answers') ->
  pr <> PThrow -> poll answers' = (true, answers'') ->
  r_now r3 = [RReply x4; RReply x5] -> r_on_close r3 = [] -> r_close_after r3 = false ->
  code x4 = 426 -> code x5 <> 421 ->
  exists w', step w (AUpload u path chunks (Some answers)) = (OReturn (RvReplies [x1; x2; x4; x5]), w') /\
    insync w' rest /\ w_data w' = None /\ w_cfg w' = w_cfg w /\
    wire_events (skipn (length (w_trace w)) (w_trace w')) =
      [WLine (setup_line (w_cfg w)); WReply x1; WLine (upverb_bytes u ++ SP :: path); WReply x2; WLine ABOR_; WReply x4; WReply x5] /\
    data_events (skipn (length (w_trace w)) (w_trace w')) = [DNewObj; DConnectTo ip port true; DClose] /\
    io_events (skipn (length (w_trace w)) (w_trace w')) = ev ++ [IoPoll true].
Proof. exact upload_cancelled_passive. Qed.
Print Assumptions C12_cancelled_upload_aborts.

(* ------------------------------------------------------------------ every call, every state, every server *)
(* [okab false tr]: in the events tr a call adds to the trace, the line ABOR is written only when the most recent poll of the
   transfer callback in this call ([EIo (IoPoll b)]) answered "cancelled": the library never aborts a transfer on its own
   initiative, and no other call writes ABOR (the raw command interface with the caller's own verb "ABOR" excepted) *)
Theorem C12_abor_only_when_the_callback_cancelled : forall a w, not_raw_abor a ->
  exists tr, w_trace (snd (step w a)) = w_trace w ++ tr /\ okab false tr.
Proof. exact step_abor_only_when_cancelled. Qed.
Print Assumptions C12_abor_only_when_the_callback_cancelled.

Theorem C12_abor_follows_a_cancelling_poll : forall a w tr pre s o post, not_raw_abor a ->
  w_trace (snd (step w a)) = w_trace w ++ tr -> tr = pre ++ EWire s o ABOR_ :: post -> abafter false pre = true.
Proof. exact abor_follows_a_cancelling_poll. Qed.
Print Assumptions C12_abor_follows_a_cancelling_poll.

Example C12_abor_example :
  let run_it cb := w_trace (snd (steps (init_world (mkConfig Passive true TBinary false false) abor_script)
                                       [AConnect [104%N] 21%N None; ADownload [102%N] cb None])) in
  abor_count (run_it (Some [false; false; true; true])) = 1%nat /\ abor_count (run_it (Some [false; false; false; false; false; false])) = O /\
  okab false (run_it (Some [false; false; true; true])).
Proof. exact abor_example. Qed.

(* ---- every transfer call with a callback, every state, either type, every server (Counts_Global.v) ---- *)
From LibFtp Require Bytes_Global Counts_Global.

(* the sizes the callback is notified of add up to the bytes the call read from plus the bytes it wrote to the data
   connection - completed, cancelled, cut or failing *)
Theorem C12_callback_counts_what_moved : forall a w, Counts_Global.with_callback a ->
  exists tr, w_trace (snd (step w a)) = w_trace w ++ tr /\
    notified (Bytes_Global.ios tr) =
      (length (net_in_bytes (Bytes_Global.ios tr)) + length (net_out_bytes (Bytes_Global.ios tr)))%nat.
Proof. exact Counts_Global.step_callback_counts_what_moved. Qed.
Print Assumptions C12_callback_counts_what_moved.

Example C12_example_counts :
  let w0 := init_world (mkConfig Passive true TAscii false false) Counts_Global.counts_script in
  let w1 := snd (steps w0 [AConnect [104] 21 None]) in
  let tr := skipn (length (w_trace w1)) (w_trace (snd (step w1 (ADownload [102] (Some [false; false; true]) None)))) in
  notified (Bytes_Global.ios tr) = 5%nat /\ net_in_bytes (Bytes_Global.ios tr) = [1;13;10;3;4] /\
  net_out_bytes (Bytes_Global.ios tr) = [].
Proof. exact Counts_Global.counts_example. Qed.

(* ---- the shape of what a transfer call with a callback does (Brackets_Global.v) ---- *)
From LibFtp Require Brackets_Global.

(* every download / upload call with a callback, every state, either type, every server: the call's polls, callback
   notifications, stream operations and data-connection reads / writes are accepted by the automaton
   Before -begin-> Inside -end-> After, in which polls are allowed everywhere and everything else only Inside *)
Theorem C12_callback_events_are_bracketed : forall a w, Brackets_Global.with_callback a ->
  exists tr st', w_trace (snd (step w a)) = w_trace w ++ tr /\
    Brackets_Global.chk Brackets_Global.Before (Bytes_Global.ios tr) = Some st'.
Proof. exact Brackets_Global.step_callback_events_are_bracketed. Qed.
Print Assumptions C12_callback_events_are_bracketed.

(* read back: begin at most once; end at most once and only after a begin *)
Theorem C12_begin_and_end_at_most_once : forall a w tr, Brackets_Global.with_callback a ->
  w_trace (snd (step w a)) = w_trace w ++ tr ->
  (count_ev is_begin (Bytes_Global.ios tr) <= 1)%nat /\
  (count_ev is_end (Bytes_Global.ios tr) <= count_ev is_begin (Bytes_Global.ios tr))%nat.
Proof. exact Brackets_Global.bracketed_once. Qed.
Print Assumptions C12_begin_and_end_at_most_once.

(* read back: without a begin (cancelled before the start, refused, failed earlier) nothing is moved, written or notified *)
Theorem C12_no_begin_nothing_moved : forall a w tr, Brackets_Global.with_callback a ->
  w_trace (snd (step w a)) = w_trace w ++ tr ->
  count_ev is_begin (Bytes_Global.ios tr) = O -> count_ev Brackets_Global.is_data (Bytes_Global.ios tr) = O.
Proof. exact Brackets_Global.no_begin_nothing_moved. Qed.
Print Assumptions C12_no_begin_nothing_moved.

Example C12_example_brackets :
  let w0 := init_world (mkConfig Passive true TAscii false false) Brackets_Global.brackets_script in
  let w1 := snd (steps w0 [AConnect [104] 21 None]) in
  let tr := skipn (length (w_trace w1)) (w_trace (snd (step w1 (ADownload [102] (Some [false; false; true; true]) None)))) in
  Bytes_Global.ios tr =
    [IoPoll false; IoBegin; IoNetRead [1;13]; IoSinkWrite [1]; IoNotify 2; IoPoll false;
     IoNetRead [10;3;13]; IoSinkWrite [10;3]; IoNotify 3; IoPoll true; IoSinkWrite [13]; IoSinkFlush; IoEnd; IoPoll true]
  /\ Brackets_Global.chk Brackets_Global.Before (Bytes_Global.ios tr) = Some Brackets_Global.After.
Proof. exact Brackets_Global.brackets_example. Qed.

(* ---- cancellation stops the transfer: every call, every state, either type, every server (Cancel_Global.v) ---- *)
From LibFtp Require Cancel_Global.

(* the io events of a call are accepted by the automaton Out -begin-> Run -poll answers cancelled-> Canc -end-> Out in which
   reads from / writes to the data connection and notifications are refused in Canc *)
Theorem C12_cancellation_stops_the_transfer : forall a w, Cancel_Global.sink_ok a ->
  exists tr st', w_trace (snd (step w a)) = w_trace w ++ tr /\
    Cancel_Global.chk Cancel_Global.Out (Bytes_Global.ios tr) = Some st'.
Proof. exact Cancel_Global.step_cancellation_stops_the_transfer. Qed.
Print Assumptions C12_cancellation_stops_the_transfer.

(* read back: after a poll that answered 'cancelled' inside a transfer nothing is read from or written to the data connection
   and no block is notified, as long as the transfer has not ended *)
Theorem C12_nothing_moves_after_cancelled : forall a w tr pre mid post, Cancel_Global.sink_ok a ->
  w_trace (snd (step w a)) = w_trace w ++ tr -> Bytes_Global.ios tr = pre ++ IoPoll true :: mid ++ post ->
  Cancel_Global.chk Cancel_Global.Out pre = Some Cancel_Global.Run ->
  count_ev is_end mid = O -> count_ev is_begin mid = O -> count_ev Cancel_Global.moves mid = O.
Proof. exact Cancel_Global.nothing_moves_after_cancelled. Qed.
Print Assumptions C12_nothing_moves_after_cancelled.

Example C12_example_cancel_stops :
  let w0 := init_world (mkConfig Passive true TBinary false false) Cancel_Global.cancel_script in
  let w1 := snd (steps w0 [AConnect [104] 21 None]) in
  let tr := skipn (length (w_trace w1)) (w_trace (snd (step w1 (ADownload [102] (Some [false; false; true; true]) None)))) in
  net_in_bytes (Bytes_Global.ios tr) = [1;2;3] /\
  Cancel_Global.chk Cancel_Global.Out (Bytes_Global.ios tr) = Some Cancel_Global.Out.
Proof. exact Cancel_Global.cancel_example. Qed.
