(* Commands_Global.v - C10 over EVERY call, every state and every behaviour of the server: a call writes no command line
   other than those of its row of the table of prescribed commands - connect: AUTH TLS and the lines of a login; login:
   USER, PASS, PBSZ 0, PROT P, TYPE; logout: REIN; rename: RNFR, RNTO; set_transfer_type: TYPE; a transfer or listing: one
   of EPSV / PASV / EPRT .. / PORT .., its own transfer command, ABOR; disconnect: QUIT. No HOST, no FEAT, no second
   AUTH, no command of another operation - whatever the server answers. *)
From LibFtp Require Import Bytes Decimal Reply Endpoint DataConn Client Client_Proofs Dispatch_Global.
Local Open Scope N_scope.

Section Allowed.
Variable A : bytes -> Prop.      (* the command lines the call may write *)

Definition okc (e : event) : Prop := match e with EWire _ _ l | EWireLost l => A l | _ => True end.

Definition E (w w' : world) : Prop := exists tr, w_trace w' = w_trace w ++ tr /\ Forall okc tr.
Definition Ex := E.

Lemma E_refl w : E w w.
Proof. exists []. rewrite app_nil_r. split; [reflexivity|constructor]. Qed.
Definition Ex_refl := E_refl.

Lemma E_trans a b c : E a b -> E b c -> E a c.
Proof.
  intros (t1 & E1 & F1) (t2 & E2 & F2). exists (t1 ++ t2). rewrite E2, E1, app_assoc. split; [reflexivity|].
  apply Forall_app; split; assumption.
Qed.
Definition E_then := E_trans.
Lemma E_weaken a b : E a b -> Ex a b.
Proof. exact (fun x => x). Qed.

Lemma quiet_okc es : Forall quiet es -> Forall okc es.
Proof. induction 1 as [|e es Q _ IH]; constructor; [|exact IH]. destruct e; try exact I; destruct Q. Qed.

Lemma E_quiet w w' es : w_trace w' = w_trace w ++ es -> Forall quiet es -> E w w'.
Proof. intros X Q. exists es. split; [exact X|apply quiet_okc; exact Q]. Qed.

Lemma E_notify w e : E w (notify w e).
Proof. apply (E_quiet _ _ (map (fun o => EObs o e) (w_obs w))); [reflexivity|apply q_obs]. Qed.

Ltac qall := repeat (first [apply Forall_nil | apply Forall_cons; [exact I|]]).
Ltac eq_ := first
  [ apply (E_quiet _ _ []); [cbn [w_trace emit set_trace set_queues set_io set_data set_cfg set_ctl set_obs release_pending notify];
                            rewrite ?app_nil_r; reflexivity|constructor]
  | (eapply E_quiet; [cbn [w_trace emit set_trace set_queues set_io set_data set_cfg set_ctl set_obs release_pending notify];
                      rewrite <- ?app_assoc; reflexivity|qall]) ].

Lemma E_do_send w line w' : A line -> do_send w line = Some w' -> E w w'.
Proof.
  intro OK. unfold do_send. destruct (negb _); [discriminate|]. destruct (_ && negb _); [discriminate|].
  set (w1 := notify w (ORequest line)).
  assert (G1 : E w w1) by apply E_notify.
  destruct (w_peer_closed w1); intro H; inversion H; subst; clear H.
  - eapply E_trans; [exact G1|]. exists [EWireLost line]. split; [reflexivity|]. constructor; [exact OK|constructor].
  - eapply E_trans; [exact G1|].
    match goal with |- E w1 (peer_react ?W) => apply (E_trans _ W) end.
    + eexists. split; [cbn [w_trace emit set_trace]; reflexivity|]. constructor; [exact OK|constructor].
    + apply (E_quiet _ _ []); [rewrite app_nil_r; apply peer_react_trace|constructor].
Qed.

Lemma E_close_data w : E w (close_data w).
Proof.
  unfold close_data. destruct (w_data w) as [d|]; [|apply E_refl].
  destruct (d_sock d), (d_acc d); cbv zeta.
  - apply (E_quiet _ _ [EData DClose; EData DAccClose]); [cbn [w_trace set_data emit set_trace release_pending set_queues]; rewrite <- app_assoc; reflexivity|qall].
  - apply (E_quiet _ _ [EData DClose]); [reflexivity|qall].
  - apply (E_quiet _ _ [EData DAccClose]); [reflexivity|qall].
  - apply (E_quiet _ _ []); [rewrite app_nil_r; reflexivity|constructor].
Qed.

Lemma E_ctl_disconnect w : E w (snd (ctl_disconnect w)).
Proof.
  unfold ctl_disconnect. cbn [snd].
  eapply E_quiet; [cbn [w_trace set_queues set_ctl emit set_trace]; reflexivity|].
  destruct (w_ssl w); cbn [app]; qall.
Qed.

(* the advertised endpoint commands are of the EPRT / PORT shape *)
Lemma adv_shape (b6 : bool) (a : adv) line :
  match a with
  | AdvEprt => Some (make_eprt_command (if b6 then V6 [58; 58; 49] else V4 127 0 0 1) canon_port)
  | AdvPort => make_port_command (if b6 then V6 [58; 58; 49] else V4 127 0 0 1) canon_port
  end = Some line -> is_eprt line \/ is_port line.
Proof. destruct b6, a; intro H; inversion H; subst; unfold is_eprt, is_port; first [left; reflexivity | right; reflexivity]. Qed.

Fixpoint gl (p : prog) : Prop :=
  match p with
  | Ret _ | Throw => True
  | Send verb arg k => A (line_of verb arg) /\ gl k
  | SendRaw line k => A line /\ gl k
  | SendAdv _ k => (forall l, is_eprt l \/ is_port l -> A l) /\ gl k
  | GetCfg k => forall c, gl (k c)
  | Recv k => forall x, gl (k x)
  | IsOpen k | IsSsl k | Poll k => forall b, gl (k b)
  | PumpIn k | PumpOut k => forall x, gl (k x)
  | PumpInList k => forall t, gl (k t)
  | CheckArg _ k | Notify _ k | SetTypeCfg _ k | CtlConnect _ _ k | CtlSetSsl _ k
  | CtlHandshake k | CtlTlsShutdown k | CtlDisconnect k | DNew k | DConnect _ _ k | DListenP k | DAccept k | DHandshakeP k
  | DDisconnect _ k | Scope k => gl k
  end.

Lemma run_gl : forall p w, gl p -> Ex w (snd (run p w)).
Proof.
  induction p as [v| |a k IH|verb arg k IH|line k IH|a k IH|k IH|e k IH|k IH|t k IH|k IH|k IH|h pt k IH|on k IH|k IH|k IH|k IH
                 |k IH|ip port k IH|k IH|k IH|k IH|g k IH|k IH|k IH|k IH|k IH|body IH]; intros w N; cbn [run]; cbn [gl] in N.
  - apply Ex_refl.
  - apply Ex_refl.
  - destruct (has_crlf a); [apply Ex_refl|apply IH; exact N].
  - destruct N as (NA & N). destruct arg as [a|]; cbn [line_of] in NA.
    + destruct (has_crlf a); [apply Ex_refl|].
      destruct (do_send w _) as [w'|] eqn:X; cbn [snd];
        [eapply E_then; [eapply E_do_send; [exact NA|exact X]|apply IH; first [exact N|apply N]]|eapply E_weaken; apply E_notify].
    + destruct (do_send w _) as [w'|] eqn:X; cbn [snd];
        [eapply E_then; [eapply E_do_send; [exact NA|exact X]|apply IH; first [exact N|apply N]]|eapply E_weaken; apply E_notify].
  - destruct N as (NA & N).
    destruct (do_send w _) as [w'|] eqn:X; cbn [snd];
      [eapply E_then; [eapply E_do_send; [exact NA|exact X]|apply IH; first [exact N|apply N]]|eapply E_weaken; apply E_notify].
  - destruct N as (NA & N).
    destruct (match a with AdvEprt => Some (make_eprt_command _ _) | AdvPort => _ end) as [line|] eqn:A0; [|apply Ex_refl].
    destruct (do_send w _) as [w'|] eqn:X; cbn [snd];
      [eapply E_then; [eapply E_do_send; [apply NA; exact (adv_shape (w_cur6 w) a line A0)|exact X]|apply IH; exact N]
      |eapply E_weaken; apply E_notify].
  - (* Recv *)
    destruct (negb (w_open w)); [apply Ex_refl|].
    destruct (w_backlog w) as [|[t [x|]] rest].
    + destruct (w_peer_closed w); apply Ex_refl.
    + set (w1 := emit (set_queues w rest (w_pending w)) [ERecv t x]).
      assert (G1 : E w w1) by (unfold w1; eq_).
      destruct (code x =? 421).
      * destruct (ctl_disconnect w1) as [ok w2] eqn:D.
        pose proof (E_ctl_disconnect w1) as G2. rewrite D in G2. cbn [snd] in G2.
        destruct ok; cbn [snd].
        -- eapply E_then; [eapply E_trans; [exact G1|]; eapply E_trans; [exact G2|apply E_notify]|apply IH; apply N].
        -- eapply E_weaken. eapply E_trans; [exact G1|exact G2].
      * eapply E_then; [eapply E_trans; [exact G1|apply E_notify]|apply IH; apply N].
    + cbn [snd]. eapply E_weaken. eq_.
  - eapply E_then; [apply E_notify|apply IH; first [exact N|apply N]].
  - apply IH. apply N.
  - (* SetTypeCfg *)
    eapply E_then; [|apply IH; first [exact N|apply N]].
    exists [ESetType t]. split; [reflexivity|qall].
  - apply IH; apply N.
  - apply IH; apply N.
  - (* CtlConnect *)
    match goal with |- context [match w_script ?w0 with _ => _ end] => set (W0 := w0) end.
    assert (X0 : E w W0) by (unfold W0; destruct (w_open w); eq_).
    destruct (w_script W0) as [|s rest]; cbn [snd].
    + eapply E_weaken. eapply E_trans; [exact X0|eq_].
    + destruct (negb (s_reachable s)); cbn [snd].
      * eapply E_weaken. eapply E_trans; [exact X0|].
        eapply E_quiet; [cbn [w_trace emit set_trace]; reflexivity|qall].
      * eapply E_then; [eapply E_trans; [exact X0|]|apply IH; first [exact N|apply N]].
        eapply E_quiet; [cbn [w_trace emit set_trace]; reflexivity|qall].
  - eapply E_then; [|apply IH; first [exact N|apply N]]. eq_.
  - destruct (w_last_tls_ok w && negb (w_peer_closed w)); cbn [snd]; [eapply E_then; [|apply IH; first [exact N|apply N]]|eapply E_weaken]; eq_.
  - destruct (w_tls_up w && w_tls_clean w && negb (w_peer_closed w)); cbn [snd]; [eapply E_then; [|apply IH; first [exact N|apply N]]|eapply E_weaken]; eq_.
  - destruct (ctl_disconnect w) as [ok w1] eqn:D.
    pose proof (E_ctl_disconnect w) as G2. rewrite D in G2. cbn [snd] in G2.
    destruct ok; cbn [snd]; [eapply E_then; [exact G2|apply IH; first [exact N|apply N]]|eapply E_weaken; exact G2].
  - eapply E_then; [|apply IH; first [exact N|apply N]]. eq_.
  - destruct (dp_reachable (w_plan w)); cbn [snd]; [eapply E_then; [|apply IH; first [exact N|apply N]]|eapply E_weaken]; eq_.
  - eapply E_then; [|apply IH; first [exact N|apply N]]. eq_.
  - destruct (dp_reachable (w_plan w)); cbn [snd]; [eapply E_then; [|apply IH; first [exact N|apply N]]; eq_|apply Ex_refl].
  - destruct (dp_tls_ok (w_plan w)); cbn [snd]; [eapply E_then; [|apply IH; first [exact N|apply N]]|eapply E_weaken]; eq_.
  - destruct (w_data w) as [d|]; [|apply IH; exact N].
    destruct (d_ssl d && negb (dp_shutdown_ok (w_plan w))); cbn [snd]; [eapply E_weaken; eq_|].
    eapply E_then; [|apply IH; first [exact N|apply N]]. eapply E_trans; [|apply E_close_data].
    destruct (d_ssl d), g; cbn [app]; eq_.
  - destruct (data_recv _ _ _ _ _) as [[ev x] cb'].
    match goal with |- context [set_io ?A ?B] => set (W1 := set_io A B) end.
    assert (G1 : E w W1) by (unfold W1; apply (E_quiet _ _ (map EIo ev)); [reflexivity|apply q_io]).
    destruct x; cbn [snd]; try (eapply E_weaken; exact G1); (eapply E_then; [exact G1|apply IH; apply N]).
  - destruct (data_recv _ _ _ _ _) as [[ev x] cb'].
    match goal with |- context [emit w ?Z] => set (W1 := emit w Z) end.
    assert (G1 : E w W1) by (unfold W1; apply (E_quiet _ _ (map EIo ev)); [reflexivity|apply q_io]).
    destruct x; cbn [snd]; try (eapply E_weaken; exact G1); (eapply E_then; [exact G1|apply IH; apply N]).
  - destruct (data_send _ _ _ _) as [[ev x] cb'].
    match goal with |- context [set_io ?A ?B] => set (W1 := set_io A B) end.
    assert (G1 : E w W1) by (unfold W1; apply (E_quiet _ _ (map EIo ev)); [reflexivity|apply q_io]).
    destruct x; cbn [snd]; try (eapply E_weaken; exact G1); (eapply E_then; [exact G1|apply IH; apply N]).
  - destruct (io_cb (w_io w)) as [answers|]; [|apply IH; apply N].
    destruct (poll answers) as [a answers'].
    eapply E_then; [|apply IH; apply N]. eq_.
  - (* Scope *)
    destruct (run body w) as [o w1] eqn:Rn. cbn [snd].
    pose proof (IH w N) as (tr & X & F). rewrite Rn in X. cbn [snd] in X.
    destruct (E_close_data w1) as (t2 & X2 & F2).
    exists (tr ++ t2). split.
    + cbn [w_trace set_data]. rewrite X2, X, app_assoc. reflexivity.
    + apply Forall_app. split; assumption.
Qed.


End Allowed.

(* ------------------------------------------------------------------ the table of prescribed commands *)
Definition login_lines (u pw l : bytes) : Prop :=
  l = USER_ ++ SP :: u \/ l = PASS_ ++ SP :: pw \/ l = PBSZ_0 \/ l = PROT_P \/ l = TYPE_ ++ [SP; 73] \/ l = TYPE_ ++ [SP; 65].

Definition setup_line (l : bytes) : Prop := l = EPSV_ \/ l = PASV_ \/ is_eprt l \/ is_port l.

Definition allowed (a : api) (l : bytes) : Prop :=
  match a with
  | AConnect _ _ None => l = AUTH_TLS
  | AConnect _ _ (Some (u, pw)) => l = AUTH_TLS \/ login_lines u pw l
  | ALogin u pw => login_lines u pw l
  | ALogout => l = REIN_
  | ASimple v arg => l = line_of v arg
  | ASetType t => l = TYPE_ ++ SP :: type_arg t
  | ARename x y => l = RNFR_ ++ SP :: x \/ l = RNTO_ ++ SP :: y
  | ADownload path _ _ => setup_line l \/ l = RETR_ ++ SP :: path \/ l = ABOR_
  | AUpload u path _ _ => setup_line l \/ l = upverb_bytes u ++ SP :: path \/ l = ABOR_
  | AList path names => setup_line l \/ l = line_of (if names then NLST_ else LIST_) path
  | ADisconnect g => g = true /\ l = QUIT_
  | _ => False
  end.

Ltac pick := first [reflexivity | (left; reflexivity) | (right; pick)].

Lemma gl_login (A : bytes -> Prop) u pw acc k : (forall l, login_lines u pw l -> A l) -> (forall a, gl A (k a)) -> gl A (process_login u pw acc k).
Proof.
  intros L K. unfold process_login, process_command, process_raw. cbn [gl]. intro c.
  split; [apply L; unfold login_lines, line_of; pick|]. intro r1. cbv zeta.
  assert (TA : forall acc3, gl A (process_command TYPE_ (Some (type_arg (c_type c))) (fun r5 => k (acc3 ++ [r5])))).
  { intro acc3. unfold process_command. cbn [gl]. split; [apply L; unfold login_lines, line_of; destruct (c_type c); cbn [type_arg]; pick|]. intro; apply K. }
  assert (AP : forall x acc2, gl A (if is_negative x then k acc2 else
      if c_tls c then process_raw PBSZ_0 (fun r3 => if is_negative r3 then k (acc2 ++ [r3]) else
                      process_raw PROT_P (fun r4 => if is_negative r4 then k (acc2 ++ [r3; r4]) else
                        process_command TYPE_ (Some (type_arg (c_type c))) (fun r5 => k ((acc2 ++ [r3; r4]) ++ [r5]))))
      else process_command TYPE_ (Some (type_arg (c_type c))) (fun r5 => k (acc2 ++ [r5])))).
  { intros x acc2. destruct (is_negative x); [apply K|]. destruct (c_tls c); [|apply TA].
    unfold process_raw. cbn [gl]. split; [apply L; unfold login_lines; pick|]. intro r3. destruct (is_negative r3); [apply K|].
    cbn [gl]. split; [apply L; unfold login_lines; pick|]. intro r4. destruct (is_negative r4); [apply K|]. apply TA. }
  destruct (code r1 =? 331).
  - cbn [gl]. split; [apply L; unfold login_lines, line_of; pick|]. intro r2. apply AP.
  - apply AP.
Qed.

Lemma gl_cdc (A : bytes -> Prop) verb arg acc k_ok k_none : (forall l, setup_line l -> A l) -> A (line_of verb arg) ->
  (forall a, gl A (k_ok a)) -> (forall a, gl A (k_none a)) -> gl A (create_data_connection verb arg acc k_ok k_none).
Proof.
  intros S V K1 K2. unfold create_data_connection, process_command. cbn [gl]. intro c. cbv zeta.
  assert (MN : forall (acc1 : list reply) (passive : bool), gl A (Send verb arg (Recv (fun r2 =>
     if is_negative r2 then (if passive then DDisconnect true (k_none (acc1 ++ [r2])) else k_none (acc1 ++ [r2]))
     else if passive then (if c_tls c then DHandshakeP (k_ok (acc1 ++ [r2])) else k_ok (acc1 ++ [r2]))
          else DAccept (if c_tls c then DHandshakeP (k_ok (acc1 ++ [r2])) else k_ok (acc1 ++ [r2])))))).
  { intros acc1 passive. cbn [gl]. split; [exact V|]. intro r2.
    destruct (is_negative r2), passive, (c_tls c); cbn [gl]; first [apply K1 | apply K2]. }
  destruct (c_mode c), (c_rfc2428 c); cbn [gl].
  - split; [apply S; unfold setup_line, line_of; pick|]. intro x. destruct (is_negative x); [apply K2|].
    destruct (try_parse_epsv_reply (text x)); [|exact I]. exact (MN (acc ++ [x]) true).
  - split; [apply S; unfold setup_line, line_of; pick|]. intro x. destruct (is_negative x); [apply K2|].
    destruct (try_parse_pasv_reply (text x)) as [[ip port]|]; [|exact I]. exact (MN (acc ++ [x]) true).
  - intro b. destruct (negb b); cbn [gl]; [exact I|]. split; [intros l [H|H]; apply S; unfold setup_line; tauto|]. intro x.
    destruct (is_negative x); [apply K2|exact (MN (acc ++ [x]) false)].
  - intro b. destruct (negb b); cbn [gl]; [exact I|]. split; [intros l [H|H]; apply S; unfold setup_line; tauto|]. intro x.
    destruct (is_negative x); [apply K2|exact (MN (acc ++ [x]) false)].
Qed.

Lemma gl_finish (A : bytes -> Prop) acc : A ABOR_ -> gl A (finish_transfer acc).
Proof.
  intro AB. unfold finish_transfer, process_abort, process_command. cbn [gl]. intro b. destruct b; cbn [gl].
  - split; [exact AB|]. intro r. destruct (code r =? 426); cbn [gl]; [intro; exact I|exact I].
  - intro r. exact I.
Qed.

(* every call, every state, every server: every command line the call writes is one of its row of the table *)
Theorem step_writes_only_prescribed_commands a w :
  exists tr, w_trace (snd (step w a)) = w_trace w ++ tr /\ Forall (okc (allowed a)) tr.
Proof.
  assert (ST : forall p i, gl (allowed a) p -> exists tr, w_trace (snd (run p (set_io w i))) = w_trace w ++ tr /\ Forall (okc (allowed a)) tr).
  { intros p i N. destruct (run_gl (allowed a) p (set_io w i) N) as (tr & X & F). exists tr. split; [exact X|exact F]. }
  destruct a as [h p l|u pw| |v arg|t|x y|path cb f|uv path ch cb|path names|g|o|o|md|b]; unfold step; cbn [prog_of];
    try (exists []; rewrite app_nil_r; split; [reflexivity|constructor]).
  - (* connect *)
    apply ST. unfold op_connect, process_raw. cbv zeta.
    assert (LP : forall acc, gl (allowed (AConnect h p l)) (match l with
                | None => Ret (RvReplies acc)
                | Some (u, pw) => process_login u pw acc (fun acc' => Ret (RvReplies acc')) end)).
    { intro acc. destruct l as [[u pw]|]; [|exact I]. apply gl_login; [intros l0 H; right; exact H|intro; exact I]. }
    assert (AU : allowed (AConnect h p l) AUTH_TLS) by (destruct l as [[u pw]|]; cbn [allowed]; [left|]; reflexivity).
    assert (B : forall acc (lst : reply), gl (allowed (AConnect h p l)) (if is_negative lst then Ret (RvReplies acc) else
         GetCfg (fun cfg => if c_tls cfg then
            SendRaw AUTH_TLS (Recv (fun a => if is_negative a then Ret (RvReplies (acc ++ [a]))
              else CtlSetSsl true (CtlHandshake (match l with
                | None => Ret (RvReplies (acc ++ [a]))
                | Some (u, pw) => process_login u pw (acc ++ [a]) (fun acc' => Ret (RvReplies acc')) end))))
          else match l with
                | None => Ret (RvReplies acc)
                | Some (u, pw) => process_login u pw acc (fun acc' => Ret (RvReplies acc')) end))).
    { intros acc lst. destruct (is_negative lst); [exact I|]. cbn [gl]. intro c. destruct (c_tls c); [|apply LP].
      cbn [gl]. split; [exact AU|]. intro a. destruct (is_negative a); [exact I|]. cbn [gl]. apply LP. }
    destruct l as [[u pw]|]; cbn [gl]; intro g; destruct (code g =? 120); cbn [gl]; try (intro g2; apply (B [g; g2] g2)); apply (B [g] g).
  - apply ST. unfold op_login. apply gl_login; [intros l H; exact H|intro; exact I].
  - apply ST. unfold op_logout, process_command. cbn [gl]. split; [reflexivity|]. intro r. cbv zeta.
    destruct (code r =? 120); cbn [gl]; [intros r2 s; destruct (is_positive r2 && s); cbn [gl]; exact I|intro s; destruct (is_positive r && s); cbn [gl]; exact I].
  - apply ST. unfold op_simple, process_command. cbn [gl]. split; [reflexivity|intro; exact I].
  - apply ST. unfold op_set_type, process_command. cbn [gl]. split; [reflexivity|]. intro r. destruct (is_positive r); cbn [gl]; exact I.
  - apply ST. unfold op_rename, process_command. cbn [gl]. split; [left; reflexivity|]. intro r.
    destruct (code r =? 350); cbn [gl]; [split; [right; reflexivity|intro; exact I]|exact I].
  - apply ST. unfold op_download. cbn [gl]. apply gl_cdc; [intros l H; left; exact H|right; left; reflexivity| |intro; exact I].
    intro a. cbn [gl]. intro x. apply gl_finish. right; right; reflexivity.
  - apply ST. unfold op_upload. cbn [gl]. apply gl_cdc; [intros l H; left; exact H|right; left; reflexivity| |intro; exact I].
    intro a. cbn [gl]. intro x. apply gl_finish. right; right; reflexivity.
  - apply ST. unfold op_list. cbn [gl]. apply gl_cdc; [intros l H; left; exact H|right; reflexivity| |intro; exact I].
    intro a. cbn [gl]. intros t0 r. exact I.
  - apply ST. unfold op_disconnect, process_command. destruct g; cbn [gl].
    + split; [split; reflexivity|]. intros r b0. destruct b0; cbn [gl]; intro s; destruct s; cbn [gl]; exact I.
    + intro b0. destruct b0; cbn [gl]; intro s; destruct s; cbn [gl]; exact I.
Qed.

(* read on the trace: a line on the wire that is not in the call's row cannot occur *)
Corollary wire_line_is_prescribed a w tr s o l :
  w_trace (snd (step w a)) = w_trace w ++ tr -> In (EWire s o l) tr -> allowed a l.
Proof.
  intros X H. destruct (step_writes_only_prescribed_commands a w) as (tr' & X' & F).
  rewrite X in X'. apply app_inv_head in X'. subst tr'. rewrite Forall_forall in F. exact (F _ H).
Qed.

(* non-vacuity: connect with a login under TLS writes AUTH TLS, USER, PASS, PBSZ 0, PROT P, TYPE I - each in its row *)
Definition commands_script : list session :=
  let say c := mkR [RReply (mkReply c [])] [] false false true no_plan in
  [mkSess true false true (say 220) [say 234; say 331; say 230; say 200; say 200; say 200]].

Example commands_example :
  let w := snd (step (init_world (mkConfig Passive true TBinary true false) commands_script) (AConnect [104] 21 (Some ([117], [112])))) in
  map (fun e => match e with EWire _ _ l => l | _ => [] end) (filter (fun e => match e with EWire _ _ _ => true | _ => false end) (w_trace w)) =
  [AUTH_TLS; USER_ ++ [SP; 117]; PASS_ ++ [SP; 112]; PBSZ_0; PROT_P; TYPE_ ++ [SP; 73]].
Proof. vm_compute. reflexivity. Qed.
