(* DataConn.v - model of data_connection::recv and data_connection::send (src/data_connection.cpp:155-244)
   together with the stream wrappers chosen by client::create_output_stream / create_input_stream
   (binary: pass-through; ascii: the converters of Ascii.v). *)
From LibFtp Require Export Bytes Ascii.
Local Open Scope N_scope.

Inductive ttype := TBinary | TAscii.

Inductive io_event :=
| IoPoll (answer : bool)          (* transfer_callback::is_cancelled *)
| IoBegin | IoNotify (n : nat) | IoEnd
| IoSinkWrite (b : bytes) | IoSinkFlush          (* the caller's output_stream *)
| IoSrcRead (asked : nat) (got : bytes)          (* the caller's input_stream *)
| IoNetRead (b : bytes)                          (* one read_some on the data socket *)
| IoNetWrite (b : bytes).                        (* one boost::asio::write on the data socket *)

(* the callback as an oracle: answers of the successive polls (exhausted = false); None = no callback *)
Definition callback := option (list bool).

Definition poll (cb : list bool) : bool * list bool :=
  match cb with [] => (false, []) | b :: r => (b, r) end.

(* how the incoming data stream ends: orderly end of file, or an error (reset, TLS truncation) *)
Inductive dend := DEof | DErr.

(* the caller's sink: its k-th write fails when [fail_at] = Some k (ostream_adapter throws) *)
Record sink := mkSink { fail_at : option nat; writes_done : nat }.

Inductive pump_result :=
| PDone                    (* loop ran to the end of the stream / of the source *)
| PCancelledBeforeStart    (* first poll true: returned at once *)
| PCancelled               (* a later poll true: loop left by break *)
| PThrow.                  (* ftp_exception (read/write error, failing sink or source) *)

(* one write into the caller's sink through the wrapper for the transfer type *)
Definition sink_write (t : ttype) (prev_cr : bool) (seg : bytes) : bytes * bool :=
  match t with
  | TBinary => (seg, prev_cr)
  | TAscii => owrite prev_cr seg
  end.

Definition sink_fails (s : sink) : bool :=
  match fail_at s with Some k => Nat.eqb k (writes_done s) | None => false end.
Definition sink_next (s : sink) : sink := mkSink (fail_at s) (S (writes_done s)).

(* the loop of data_connection::recv over the segments read_some returns (each non-empty) *)
Fixpoint recv_loop (t : ttype) (prev_cr : bool) (s : sink) (segs : list bytes) (e : dend) (cb : callback)
  : list io_event * pump_result * bool * sink * callback :=
  match segs with
  | [] =>
      match e with
      | DEof => ([], PDone, prev_cr, s, cb)
      | DErr => ([], PThrow, prev_cr, s, cb)
      end
  | seg :: rest =>
      let '(o, p) := sink_write t prev_cr seg in
      if sink_fails s then ([IoNetRead seg; IoSinkWrite o], PThrow, p, s, cb)
      else
        let s' := sink_next s in
        match cb with
        | None =>
            let '(ev, r, p', s'', cb') := recv_loop t p s' rest e None in
            (IoNetRead seg :: IoSinkWrite o :: ev, r, p', s'', cb')
        | Some answers =>
            let '(a, answers') := poll answers in
            let here := [IoNetRead seg; IoSinkWrite o; IoNotify (length seg); IoPoll a] in
            if a then (here, PCancelled, p, s', Some answers')
            else let '(ev, r, p', s'', cb') := recv_loop t p s' rest e (Some answers') in
                 (here ++ ev, r, p', s'', cb')
        end
  end.

(* "if (transfer_cb) { if (transfer_cb->is_cancelled()) return; transfer_cb->begin(); }" *)
Definition start_events (cb : callback) : list io_event * bool * callback :=
  match cb with
  | None => ([], false, None)
  | Some answers => let '(a, answers') := poll answers in ([IoPoll a] ++ (if a then [] else [IoBegin]), a, Some answers')
  end.

(* data_connection::recv(stream, transfer_cb) with stream = create_output_stream(dst) *)
Definition data_recv (t : ttype) (s : sink) (segs : list bytes) (e : dend) (cb : callback)
  : list io_event * pump_result * callback :=
  let '(ev0, cancelled, cb1) := start_events cb in
  if cancelled then (ev0, PCancelledBeforeStart, cb1)
  else
    let '(ev, r, p, s', cb2) := recv_loop t false s segs e cb1 in
    match r with
    | PThrow => (ev0 ++ ev, PThrow, cb2)
    | _ =>
        (* stream.flush(): the ascii wrapper first delivers a pending CR *)
        let pendcr := match t with TAscii => p | TBinary => false end in
        if pendcr && sink_fails s' then (ev0 ++ ev ++ [IoSinkWrite [CR]], PThrow, cb2)
        else
          let fl := (if pendcr then [IoSinkWrite [CR]] else []) ++ [IoSinkFlush] in
          let en := match cb with None => [] | Some _ => [IoEnd] end in
          (ev0 ++ ev ++ fl ++ en, r, cb2)
    end.

(* ---- upload ---- *)
(* the source: what its successive read calls return when asked for [asked] bytes; the model is given the
   chunks directly (non-empty, each at most the size asked); no chunk left = returns 0 *)

(* blocks handed to data_connection::send by the wrapper: binary = the source's chunks as they come;
   ascii = the reads of the converter with a caller buffer of [blk] bytes *)
Fixpoint ascii_blocks (fuel : nat) (blk : nat) (st : istate) : list bytes :=
  match fuel with
  | O => []
  | S f => let '(o, st') := aread blk st in
           match o with [] => [] | _ => o :: ascii_blocks f blk st' end
  end.

(* what the source hands out up to its first empty read: the loop of data_connection::send stops there and never
   asks again, whatever the source would return later *)
Fixpoint upto_empty (chunks : list bytes) : list bytes :=
  match chunks with
  | [] => []
  | [] :: _ => []
  | c :: rest => c :: upto_empty rest
  end.

Definition upload_blocks (t : ttype) (blk : nat) (chunks : list bytes) : list bytes :=
  match t with
  | TBinary => upto_empty chunks
  | TAscii => ascii_blocks (S (2 * length (concat chunks))) blk (istart chunks)
  end.

(* the loop of data_connection::send over the blocks stream.read returns *)
Fixpoint send_loop (blocks : list bytes) (cb : callback) : list io_event * pump_result * callback :=
  match blocks with
  | [] => ([], PDone, cb)
  | b :: rest =>
      match cb with
      | None => let '(ev, r, cb') := send_loop rest None in (IoNetWrite b :: ev, r, cb')
      | Some answers =>
          let '(a, answers') := poll answers in
          let here := [IoNetWrite b; IoNotify (length b); IoPoll a] in
          if a then (here, PCancelled, Some answers')
          else let '(ev, r, cb') := send_loop rest (Some answers') in (here ++ ev, r, cb')
      end
  end.

Definition data_send (t : ttype) (blk : nat) (chunks : list bytes) (cb : callback)
  : list io_event * pump_result * callback :=
  let '(ev0, cancelled, cb1) := start_events cb in
  if cancelled then (ev0, PCancelledBeforeStart, cb1)
  else
    let '(ev, r, cb2) := send_loop (upload_blocks t blk chunks) cb1 in
    let en := match cb with None => [] | Some _ => [IoEnd] end in
    (ev0 ++ ev ++ en, r, cb2).

(* ---- projections used by the theorems ---- *)
Fixpoint sink_bytes (l : list io_event) : bytes :=
  match l with
  | [] => []
  | IoSinkWrite b :: l' => b ++ sink_bytes l'
  | _ :: l' => sink_bytes l'
  end.
Fixpoint net_out_bytes (l : list io_event) : bytes :=
  match l with
  | [] => []
  | IoNetWrite b :: l' => b ++ net_out_bytes l'
  | _ :: l' => net_out_bytes l'
  end.
Fixpoint net_in_bytes (l : list io_event) : bytes :=
  match l with
  | [] => []
  | IoNetRead b :: l' => b ++ net_in_bytes l'
  | _ :: l' => net_in_bytes l'
  end.
Fixpoint notified (l : list io_event) : nat :=
  match l with
  | [] => O
  | IoNotify n :: l' => (n + notified l')%nat
  | _ :: l' => notified l'
  end.
Definition count_ev (f : io_event -> bool) (l : list io_event) : nat := length (filter f l).
Definition is_flush (e : io_event) : bool := match e with IoSinkFlush => true | _ => false end.
Definition is_begin (e : io_event) : bool := match e with IoBegin => true | _ => false end.
Definition is_end (e : io_event) : bool := match e with IoEnd => true | _ => false end.
