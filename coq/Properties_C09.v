(* C09 - one command line per protocol step; caller text cannot inject commands. *)
From LibFtp Require Import Bytes Decimal Reply Endpoint DataConn Client Client_Proofs Global_Proofs.
Local Open Scope N_scope.

(* for every API call, every world (configuration, connection state, script of the peer): every command line the
   call writes is free of CR and LF (it goes out as that line followed by exactly CR LF, see do_send /
   control_connection::send), so the peer can never see more command lines than protocol steps *)
Theorem C09_one_line_per_step : forall a w, api_verb_clean a ->
  exists new, w_trace (snd (run (prog_of a) w)) = w_trace w ++ new /\
    Forall (fun x => match x with WLine l => has_crlf l = false | WReply _ => True end) (wire_events new).
Proof. exact one_line_per_step. Qed.
Print Assumptions C09_one_line_per_step.

(* a caller text (path, user name, password, SITE/HELP argument, either name of rename) that contains CR or LF:
   the call raises ftp_exception and contributes nothing - no wire byte, no event, no state change *)
Theorem C09_crlf_rejected_before_send : forall a w, existsb has_crlf (api_texts a) = true ->
  step w a = (OThrow, set_io w (io_of a)).
Proof. exact crlf_rejected_before_send. Qed.
Print Assumptions C09_crlf_rejected_before_send.

(* the line of a step is the verb, and where there is an argument one space and the caller's text unchanged *)
Theorem C09_line_is_verb_space_text : forall verb a k w w',
  has_crlf a = false -> do_send w (verb ++ SP :: a) = Some w' ->
  run (Send verb (Some a) k) w = run k w'.
Proof. intros verb a k w w' H E. cbn [run]. rewrite H, E. reflexivity. Qed.
Print Assumptions C09_line_is_verb_space_text.

Example C09_example :
  fst (step (init_world (mkConfig Passive true TBinary false false) [])
            (ASimple [67;87;68] (Some [97;13;10;68;69;76;69;32;98]))) = OThrow.
Proof. vm_compute. reflexivity. Qed.

(* ... over whole histories: any list of API calls, from any state of the client, against any server - every command
   line the client ever writes is a single line (no CR, no LF inside): no caller text makes it write a second command *)
Theorem C09_history_lines_clean : forall cs w, Forall api_verb_clean cs ->
  exists new, w_trace (snd (steps w cs)) = w_trace w ++ new /\ Forall clean_item (wire_events new).
Proof. exact history_lines_clean. Qed.
Print Assumptions C09_history_lines_clean.
