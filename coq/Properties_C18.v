(* C18 - data connections reuse the control TLS session and context when asked to.
   The model abstracts TLS: a session is an identifier created by each successful control handshake; the data
   handshake records which session it offers. What OpenSSL does with the offered session (TLS 1.3 tickets are
   single-use: a recorded finding) is runtime behaviour outside the model. *)
From LibFtp Require Import Bytes Decimal Reply Endpoint Ascii DataConn DataConn_Proofs Client Client_Proofs Login_Proofs Transfer_Proofs Transfer_More.
Local Open Scope N_scope.

(* every data handshake offers the control connection's CURRENT session when resumption is configured, and no
   session (full handshake) when it is not *)
Theorem C18_data_handshake_offer : forall k w,
  let offered := if c_resume (w_cfg w) then Some (w_sess_id w) else None in
  (dp_tls_ok (w_plan w) = true ->
     exists w1, run (DHandshakeP k) w = run k w1 /\ w_trace w1 = w_trace w ++ [EData (DHandshake offered true)] /\
                w_sess_id w1 = w_sess_id w /\ w_cfg w1 = w_cfg w) /\
  (dp_tls_ok (w_plan w) = false ->
     exists w1, run (DHandshakeP k) w = (OThrow, w1) /\ w_trace w1 = w_trace w ++ [EData (DHandshake offered false)]).
Proof. exact data_handshake_offer. Qed.
Print Assumptions C18_data_handshake_offer.

(* the current session is the one of the latest successful control handshake: it gets a fresh identifier ... *)
Theorem C18_control_handshake_sets_session : forall k w,
  (w_last_tls_ok w && negb (w_peer_closed w) = true ->
     exists w1, run (CtlHandshake k) w = run k w1 /\ w_tls_up w1 = true /\ w_ssl w1 = w_ssl w /\
                w_sess_id w1 = w_next_sess w /\ w_next_sess w1 = S (w_next_sess w) /\
                w_trace w1 = w_trace w ++ [ECtl (CHandshake true (w_next_sess w))]) /\
  (w_last_tls_ok w && negb (w_peer_closed w) = false ->
     run (CtlHandshake k) w = (OThrow, emit w [ECtl (CHandshake false O)])).
Proof. exact ctl_handshake_cases. Qed.
Print Assumptions C18_control_handshake_sets_session.

(* ... command / reply exchanges (any number of transfers' set-up commands) leave it alone ... *)
Theorem C18_commands_keep_session : forall w line x r rest, w_cur w = r :: rest ->
  w_sess_id (after_command w line x) = w_sess_id w /\ w_ssl (after_command w line x) = w_ssl w /\
  w_tls_up (after_command w line x) = w_tls_up w /\ w_next_sess (after_command w line x) = w_next_sess w.
Proof. exact after_command_tls. Qed.
Print Assumptions C18_commands_keep_session.

(* ... and a new connection starts without one (C13_fresh_session: w_sess_id = 0 until the next handshake). *)

(* the same context: the client has ONE TLS configuration (context present, resumption flag); no call changes it,
   so control and data connections share the verification settings *)
Theorem C18_same_context : forall a w,
  c_tls (w_cfg (snd (step w a))) = c_tls (w_cfg w) /\ c_resume (w_cfg (snd (step w a))) = c_resume (w_cfg w).
Proof. exact step_keeps_tls_config. Qed.
Print Assumptions C18_same_context.

(* non-vacuity: two transfers on one TLS session offer session 1 both times; after a reconnect, session 2 *)
Definition c18_script : list session :=
  let ok c := mkR [RReply (mkReply c [])] [] false false true no_plan in
  let epsv := mkR [RReply (mkReply 229 [40;124;124;124;53;124;41])] [] false false true (mkDP true true [] DEof true) in
  let retr := mkR [RReply (mkReply 150 []); RReply (mkReply 226 [])] [] false false true (mkDP true true [[1]] DEof true) in
  [mkSess true false true (ok 220) [ok 234; epsv; retr; epsv; retr; ok 221];
   mkSess true false true (ok 220) [ok 234; epsv; retr]].
Example C18_example :
  let w0 := init_world (mkConfig Passive true TBinary true true) c18_script in
  let '(_, w) := steps w0 [AConnect [104] 21 None; ADownload [102] None None; ADownload [102] None None;
                           ADisconnect true; AConnect [104] 21 None; ADownload [102] None None] in
  data_events (w_trace w) =
    [DNewObj; DConnectTo None 5 true; DHandshake (Some 1%nat) true; DTlsShutdown true; DTcpShutdown; DClose;
     DNewObj; DConnectTo None 5 true; DHandshake (Some 1%nat) true; DTlsShutdown true; DTcpShutdown; DClose;
     DNewObj; DConnectTo None 5 true; DHandshake (Some 2%nat) true; DTlsShutdown true; DTcpShutdown; DClose].
Proof. vm_compute. reflexivity. Qed.

(* PARTIAL / recorded finding: with TLS 1.3 OpenSSL marks the shared SSL_SESSION not resumable after its first use,
   so only the first data connection of a control connection actually resumes: KNOWN-FINDING
   tls13/second-and-later-data-connection (observed by the peer's TLS engine, not expressible in this model). *)

(* in a whole download over TLS the data handshake offers the control connection's session exactly when resumption is configured (data_events conjunct) *)
Theorem C18_download_offers_control_session : forall w path r1 r2 rest x1 x2 x3 ip port,
  insync w (r1 :: r2 :: rest) -> w_data w = None ->
  c_mode (w_cfg w) = Passive -> c_tls (w_cfg w) = true ->
  has_crlf path = false ->
  simple_reaction r1 x1 -> is_negative x1 = false -> passive_target (w_cfg w) x1 ip port ->
  dp_reachable (r_data r1) = true ->
  accepts_transfer r2 x2 x3 -> dp_end (r_data r2) = DEof ->
  dp_tls_ok (r_data r2) = true -> dp_shutdown_ok (r_data r2) = true ->
  exists w', step w (ADownload path None None) = (OReturn (RvReplies [x1; x2; x3]), w') /\
    insync w' rest /\ w_data w' = None /\ w_cfg w' = w_cfg w /\
    w_sess_id w' = w_sess_id w /\ w_ssl w' = w_ssl w /\ w_tls_up w' = w_tls_up w /\
    sink_bytes (io_events (skipn (length (w_trace w)) (w_trace w'))) = delivered (c_type (w_cfg w)) (concat (dp_segs (r_data r2))) /\
    wire_events (skipn (length (w_trace w)) (w_trace w')) =
      [WLine (setup_line (w_cfg w)); WReply x1; WLine (RETR_ ++ SP :: path); WReply x2; WReply x3] /\
    data_events (skipn (length (w_trace w)) (w_trace w')) =
      [DNewObj; DConnectTo ip port true;
       DHandshake (if c_resume (w_cfg w) then Some (w_sess_id w) else None) true;
       DTlsShutdown true; DTcpShutdown; DClose].
Proof. exact download_passive_complete_tls. Qed.
Print Assumptions C18_download_offers_control_session.

(* "any number of consecutive transfers": k downloads over TLS on one control connection (passive modes, any payloads): every
   data handshake offers the SAME session, the control connection's, when resumption is configured - and none when it is
   not; the control session itself is untouched *)
Theorem C18_consecutive_downloads_offer_the_control_session : forall paths rs,
  forall w rest, tls_download_scripts (w_cfg w) paths rs ->
  insync w (rs ++ rest) -> w_data w = None -> c_mode (w_cfg w) = Passive -> c_tls (w_cfg w) = true ->
  let w' := snd (steps w (map (fun p => ADownload p None None) paths)) in
  insync w' rest /\ w_sess_id w' = w_sess_id w /\
  handshakes (skipn (length (w_trace w)) (w_trace w')) =
    repeat (if c_resume (w_cfg w) then Some (w_sess_id w) else None) (length paths).
Proof. exact consecutive_tls_downloads_offer_the_control_session. Qed.
Print Assumptions C18_consecutive_downloads_offer_the_control_session.

From LibFtp Require Import Reuse_Global.
(* ------------------------------------------------------------------ every call, every history, every state, every server *)
(* [okre resume cur tr]: along the events tr, with [cur] the session of the control connection (set by each successful
   handshake of the control connection, gone when that connection is closed, replaced or switched back to plain), every TLS
   handshake of a data connection ([EData (DHandshake off _)]) offers [Some cur] when the context has session resumption and
   nothing otherwise - whatever the method, the operation, the number of transfers, the reconnects and the answers of the
   server. (What OpenSSL then does with the offer is observed by the peer: see the recorded TLS 1.3 finding.) *)
Theorem C18_every_data_handshake_offers_the_control_session : forall a w,
  exists tr, w_trace (snd (step w a)) = w_trace w ++ tr /\ okre (c_resume (w_cfg w)) (w_sess_id w) tr.
Proof. exact step_offers_the_control_session. Qed.
Print Assumptions C18_every_data_handshake_offers_the_control_session.

Theorem C18_every_history_offers_the_control_session : forall cs w,
  exists tr, w_trace (snd (steps w cs)) = w_trace w ++ tr /\ okre (c_resume (w_cfg w)) (w_sess_id w) tr.
Proof. exact history_offers_the_control_session. Qed.
Print Assumptions C18_every_history_offers_the_control_session.

Example C18_reuse_example :
  let w0 := init_world (mkConfig Passive true TBinary true true) reuse_script in
  let tr := w_trace (snd (steps w0 [AConnect [104%N] 21%N None; ADownload [102%N] None None; ADownload [102%N] None None;
                                    ADisconnect true; AConnect [104%N] 21%N None; ADownload [102%N] None None])) in
  okre true O tr /\
  map (fun e => match e with EData (DHandshake off _) => off | _ => None end)
      (filter (fun e => match e with EData (DHandshake _ _) => true | _ => false end) tr) = [Some 1%nat; Some 1%nat; Some 2%nat].
Proof. exact reuse_example. Qed.
