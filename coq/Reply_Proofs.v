From LibFtp Require Import Bytes Reply.
Local Open Scope N_scope.

Lemma classes_partition_code c : c <> unspecified ->
  let r := mkReply c [] in
  (is_positive r = true <-> c < 400) /\
  (is_negative r = true <-> 400 <= c) /\
  (is_positive r = negb (is_negative r)) /\
  (is_intermediate r = true <-> 300 <= c < 400) /\
  (is_intermediate r = true -> is_positive r = true).
Proof.
  intros Hc r. unfold is_positive, is_negative, is_intermediate; cbn.
  apply N.eqb_neq in Hc. rewrite Hc. cbn.
  destruct (N.ltb_spec c 400), (N.leb_spec 400 c), (N.leb_spec 300 c); cbn;
    repeat split; intros; try lia; try reflexivity; try discriminate.
Qed.

Lemma class_ignores_text c t :
  is_positive (mkReply c t) = is_positive (mkReply c []) /\
  is_negative (mkReply c t) = is_negative (mkReply c []) /\
  is_intermediate (mkReply c t) = is_intermediate (mkReply c []).
Proof. repeat split. Qed.

Lemma default_reply_no_class :
  is_positive default_reply = false /\ is_negative default_reply = false /\
  is_intermediate default_reply = false.
Proof. repeat split. Qed.

Lemma join_snoc sep l x :
  join sep (l ++ [x]) = match l with [] => x | _ => join sep l ++ sep ++ x end.
Proof.
  induction l as [|y l IH]; [reflexivity|].
  destruct l as [|z l]; [reflexivity|].
  change ((y :: z :: l) ++ [x]) with (y :: (z :: l) ++ [x]).
  change (join sep (y :: (z :: l) ++ [x])) with (y ++ sep ++ join sep ((z :: l) ++ [x])).
  rewrite IH. change (join sep (y :: z :: l)) with (y ++ sep ++ join sep (z :: l)).
  rewrite <- !app_assoc. reflexivity.
Qed.

Lemma forallb_snoc {A} (f : A -> bool) l x : forallb f (l ++ [x]) = forallb f l && f x.
Proof. rewrite forallb_app. cbn. rewrite andb_true_r. reflexivity. Qed.

Definition agg_ok (l : list reply) (rs : replies) : Prop :=
  members rs = l /\ agg_positive rs = spec_positive l /\ agg_text rs = spec_text l.

Lemma append_preserves l rs r : agg_ok l rs -> agg_ok (l ++ [r]) (append rs r).
Proof.
  destruct rs as [m p t]. unfold agg_ok, append. cbn [members agg_positive agg_text].
  intros (-> & -> & ->).
  destruct l as [|x l].
  - cbn. rewrite andb_true_r. repeat split.
  - assert (E : (x :: l) ++ [r] = x :: (l ++ [r])) by reflexivity.
    assert (T : spec_text (x :: l) ++ CRLF ++ text r = spec_text ((x :: l) ++ [r])).
    { unfold spec_text. rewrite map_app. cbn [map]. rewrite join_snoc. reflexivity. }
    assert (P : spec_positive ((x :: l) ++ [r]) = spec_positive (x :: l) && is_positive r).
    { rewrite E. cbn [spec_positive]. rewrite <- E. apply forallb_snoc. }
    destruct (is_positive r) eqn:Pr; cbn [members agg_positive agg_text];
      rewrite P, T; repeat split.
    + rewrite andb_true_r. reflexivity.
    + rewrite andb_false_r. reflexivity.
Qed.

Lemma fold_append_ok l : forall l0 rs, agg_ok l0 rs -> agg_ok (l0 ++ l) (fold_left append l rs).
Proof.
  induction l as [|r l IH]; intros l0 rs H; cbn [fold_left].
  - rewrite app_nil_r. exact H.
  - replace (l0 ++ r :: l) with ((l0 ++ [r]) ++ l) by (rewrite <- app_assoc; reflexivity).
    apply IH. apply append_preserves. exact H.
Qed.

Theorem aggregate_spec l : agg_ok l (append_all l).
Proof.
  unfold append_all. change l with ([] ++ l) at 1. apply fold_append_ok.
  repeat split.
Qed.
