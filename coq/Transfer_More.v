(* Transfer_More.v - further whole-operation theorems in the style of Transfer_Proofs.v: the active modes, TLS on the
   data connection, cancellation with ABOR, and connect (greeting, 120 + 220, AUTH TLS + handshake). *)
From Coq Require Import Lia ZifyNat ZifyN.
From LibFtp Require Import Bytes Decimal Reply Endpoint Ascii DataConn DataConn_Proofs Client Client_Proofs Login_Proofs Transfer_Proofs.
Local Open Scope N_scope.



Lemma run_isopen k w : run (IsOpen k) w = run (k (w_open w)) w.
Proof. reflexivity. Qed.
Lemma run_dlisten k w : run (DListenP k) w = run k (emit (set_data w (Some (mkD false true false))) [EData DListen]).
Proof. reflexivity. Qed.
Lemma run_daccept k w : dp_reachable (w_plan w) = true ->
  run (DAccept k) w = run k (emit (set_data w (Some (mkD true true false))) [EData DAcceptOk]).
Proof. intro H. cbn [run]. rewrite H. reflexivity. Qed.

(* the command that advertises the listening endpoint *)
Definition adv_cmd (w : world) : option bytes :=
  if c_rfc2428 (w_cfg w) then Some (make_eprt_command (local_ip w) canon_port)
  else make_port_command (local_ip w) canon_port.

Lemma xchg_adv a k w line r rest x :
  ready w -> w_cur w = r :: rest -> answers_with r x ->
  match a with AdvEprt => Some (make_eprt_command (local_ip w) canon_port) | AdvPort => make_port_command (local_ip w) canon_port end = Some line ->
  run (SendAdv a (Recv k)) w = run (k x) (after_command w line x).
Proof.
  intros Hr Hc Hs Hl. pose proof (xchg_line line k w r rest x Hr Hc Hs) as P.
  cbn [run] in P |- *. rewrite Hl. exact P.
Qed.

Theorem download_active_complete w path r1 r2 rest x1 x2 x3 line :
  insync w (r1 :: r2 :: rest) -> w_data w = None ->
  c_mode (w_cfg w) = Active -> c_tls (w_cfg w) = false ->
  has_crlf path = false -> adv_cmd w = Some line ->
  simple_reaction r1 x1 -> is_negative x1 = false ->
  accepts_transfer r2 x2 x3 -> dp_reachable (r_data r2) = true -> dp_end (r_data r2) = DEof ->
  exists w', step w (ADownload path None None) = (OReturn (RvReplies [x1; x2; x3]), w') /\
    insync w' rest /\ w_data w' = None /\ w_cfg w' = w_cfg w /\
    sink_bytes (io_events (skipn (length (w_trace w)) (w_trace w'))) = delivered (c_type (w_cfg w)) (concat (dp_segs (r_data r2))) /\
    wire_events (skipn (length (w_trace w)) (w_trace w')) =
      [WLine line; WReply x1; WLine (RETR_ ++ SP :: path); WReply x2; WReply x3] /\
    data_events (skipn (length (w_trace w)) (w_trace w')) =
      [DNewObj; DListen; DAcceptOk; DTcpShutdown; DClose; DAccClose].
Proof.
  intros ((Ho & Hs & Hpc & Hb) & Hp & Hc) Hd Hm Htls Hpath Hadv (R1n & R1c & R1a & R1x) N1
         (R2n & R2c & R2a & N2 & X2 & X3) Reach End.
  destruct w as [cfg f2 f3 f4 f5 f6 f7 f8 f9 f10 f11 f12 f13 f14 f15 f16 f17 f18 f19 f20].
  destruct cfg as [cm crfc cty ctls cres].
  cbn in Ho, Hs, Hpc, Hb, Hp, Hc, Hd, Hm, Htls. subst.
  destruct r1 as [n1 oc1 dp1 ca1 tl1 d1]. destruct r2 as [n2 oc2 dp2 ca2 tl2 d2].
  cbn in R1n, R1c, R1a, Reach, R2n, R2c, R2a, End. subst.
  unfold adv_cmd in Hadv. cbn [w_cfg c_rfc2428] in Hadv.
  destruct (data_recv cty (mkSink None O) (dp_segs d2) DEof None) as [[ev r] cb'] eqn:DR.
  pose proof (data_recv_nocb _ _ _ _ _ _ _ DR) as ->.
  pose proof (download_completes_any_type _ _ _ _ _ _ (eq_refl : good_sink (mkSink None O)) DR) as ->.
  pose proof (download_sink_any_type _ _ _ _ _ (eq_refl : good_sink (mkSink None O)) DR) as SB.
  rewrite step_download_unfold. unfold op_download.
  rewrite run_checkarg, Hpath, run_scope.
  unfold create_data_connection. rewrite run_getcfg. flat.
  rewrite run_isopen. flat. rewrite run_dnew, run_dlisten.
  erewrite (xchg_adv (if crfc then AdvEprt else AdvPort) _ _ line _ _ x1);
    [| repeat split; auto | reflexivity | repeat split; auto | destruct crfc; exact Hadv].
  cbv beta. rewrite N1. cbv beta iota.
  erewrite (xchg RETR_ (Some path) _ _ _ _ x2); [| repeat split; auto | reflexivity | repeat split; auto | exact Hpath].
  cbv beta. rewrite N2. cbv beta iota.
  rewrite run_daccept by exact Reach.
  rewrite (run_pumpin _ _ ev PDone None); [| cbn; rewrite End; exact DR | discriminate].
  unfold finish_transfer. rewrite run_poll_none by reflexivity.
  rewrite (run_ddisconnect true _ _ (mkD true true false)) by reflexivity.
  rewrite (recv_reply _ _ (S f18) x3 []); [| reflexivity | cbn; rewrite !Hdp; reflexivity | exact X3].
  rewrite run_ret.
  eexists. split; [reflexivity|].
  split. { unfold insync, ready. cbn. rewrite Hs. auto. }
  split; [reflexivity|]. split; [reflexivity|].
  trace_facts. auto.
Qed.

(* C07 in the active modes: EPRT / PORT refused - the reply is returned, nothing moved, the listener is closed *)
Theorem refused_at_active_setup w verb path io k_ok r1 rest x1 line :
  insync w (r1 :: rest) -> w_data w = None ->
  c_mode (w_cfg w) = Active -> has_crlf path = false -> adv_cmd w = Some line ->
  simple_reaction r1 x1 -> is_negative x1 = true ->
  exists w',
    run (CheckArg path (Scope (create_data_connection verb (Some path) [] k_ok (fun acc => Ret (RvReplies acc))))) (set_io w io)
      = (OReturn (RvReplies [x1]), w') /\
    insync w' rest /\ w_data w' = None /\ w_cfg w' = w_cfg w /\
    io_events (skipn (length (w_trace w)) (w_trace w')) = [] /\
    wire_events (skipn (length (w_trace w)) (w_trace w')) = [WLine line; WReply x1] /\
    data_events (skipn (length (w_trace w)) (w_trace w')) = [DNewObj; DListen; DAccClose].
Proof.
  intros ((Ho & Hs & Hpc & Hb) & Hp & Hc) Hd Hm Hpath Hadv (R1n & R1c & R1a & R1x) N1.
  destruct w as [cfg f2 f3 f4 f5 f6 f7 f8 f9 f10 f11 f12 f13 f14 f15 f16 f17 f18 f19 f20].
  destruct cfg as [cm crfc cty ctls cres].
  cbn in Ho, Hs, Hpc, Hb, Hp, Hc, Hd, Hm. subst.
  destruct r1 as [n1 oc1 dp1 ca1 tl1 d1]. cbn in R1n, R1c, R1a. subst.
  unfold adv_cmd in Hadv. cbn [w_cfg c_rfc2428] in Hadv.
  rewrite run_checkarg, Hpath, run_scope.
  unfold create_data_connection. rewrite run_getcfg. flat.
  rewrite run_isopen. flat. rewrite run_dnew, run_dlisten.
  erewrite (xchg_adv (if crfc then AdvEprt else AdvPort) _ _ line _ _ x1);
    [| repeat split; auto | reflexivity | repeat split; auto | destruct crfc; exact Hadv].
  cbv beta. rewrite N1. cbv beta iota. rewrite run_ret.
  eexists. split; [reflexivity|].
  split. { unfold insync, ready. cbn. rewrite Hs. destruct dp1; auto. }
  split; [reflexivity|]. split; [reflexivity|].
  trace_facts. auto.
Qed.

(* ... and the transfer command refused in the active modes: nothing is accepted, the listener is closed *)
Theorem refused_at_transfer_command_active w verb path io k_ok r1 r2 rest x1 x2 line :
  insync w (r1 :: r2 :: rest) -> w_data w = None ->
  c_mode (w_cfg w) = Active -> has_crlf path = false -> adv_cmd w = Some line ->
  simple_reaction r1 x1 -> is_negative x1 = false ->
  simple_reaction r2 x2 -> is_negative x2 = true ->
  exists w',
    run (CheckArg path (Scope (create_data_connection verb (Some path) [] k_ok (fun acc => Ret (RvReplies acc))))) (set_io w io)
      = (OReturn (RvReplies [x1; x2]), w') /\
    insync w' rest /\ w_data w' = None /\ w_cfg w' = w_cfg w /\
    io_events (skipn (length (w_trace w)) (w_trace w')) = [] /\
    wire_events (skipn (length (w_trace w)) (w_trace w')) = [WLine line; WReply x1; WLine (verb ++ SP :: path); WReply x2] /\
    data_events (skipn (length (w_trace w)) (w_trace w')) = [DNewObj; DListen; DAccClose].
Proof.
  intros ((Ho & Hs & Hpc & Hb) & Hp & Hc) Hd Hm Hpath Hadv (R1n & R1c & R1a & R1x) N1 (R2n & R2c & R2a & X2) N2.
  destruct w as [cfg f2 f3 f4 f5 f6 f7 f8 f9 f10 f11 f12 f13 f14 f15 f16 f17 f18 f19 f20].
  destruct cfg as [cm crfc cty ctls cres].
  cbn in Ho, Hs, Hpc, Hb, Hp, Hc, Hd, Hm. subst.
  destruct r1 as [n1 oc1 dp1 ca1 tl1 d1]. destruct r2 as [n2 oc2 dp2 ca2 tl2 d2].
  cbn in R1n, R1c, R1a, R2n, R2c, R2a. subst.
  unfold adv_cmd in Hadv. cbn [w_cfg c_rfc2428] in Hadv.
  rewrite run_checkarg, Hpath, run_scope.
  unfold create_data_connection. rewrite run_getcfg. flat.
  rewrite run_isopen. flat. rewrite run_dnew, run_dlisten.
  erewrite (xchg_adv (if crfc then AdvEprt else AdvPort) _ _ line _ _ x1);
    [| repeat split; auto | reflexivity | repeat split; auto | destruct crfc; exact Hadv].
  cbv beta. rewrite N1. cbv beta iota.
  erewrite (xchg verb (Some path) _ _ _ _ x2); [| repeat split; auto | reflexivity | repeat split; auto | exact Hpath].
  cbv beta. rewrite N2. cbv beta iota. rewrite run_ret.
  eexists. split; [reflexivity|].
  split. { unfold insync, ready. cbn. rewrite !Hdp, Hs. auto. }
  split; [reflexivity|]. split; [reflexivity|].
  trace_facts. auto.
Qed.



Lemma run_send_none verb k w : w_open w = true -> (w_ssl w && negb (w_tls_up w)) = false -> w_peer_closed w = false ->
  run (Send verb None k) w = run k (peer_react (emit (notify w (ORequest verb)) [EWire (w_ssl w && w_tls_up w) (w_ord w) verb])).
Proof. intros Ho Hs Hp. cbn [run]. rewrite (do_send_ready w verb Ho Hs Hp). reflexivity. Qed.

Lemma run_poll_some k w answers a answers' : io_cb (w_io w) = Some answers -> poll answers = (a, answers') ->
  run (Poll k) w = run (k a) (set_io (emit w [EIo (IoPoll a)]) (mkIo (Some answers') (io_sink (w_io w)) (io_chunks (w_io w)))).
Proof. intros H P. cbn [run]. rewrite H, P. reflexivity. Qed.

Lemma run_ddisconnect_ng k w d : w_data w = Some d -> d_ssl d = false ->
  run (DDisconnect false k) w = run k (close_data (emit w ([] ++ []))).
Proof. intros H S. cbn [run]. rewrite H, S. reflexivity. Qed.

(* C12 / C02: a download cancelled by the callback while the transfer is in progress, passive modes: the data loop has
   stopped at a true poll; the client sends ABOR, the server answers 426 (transfer aborted) and then 226 (ABOR done):
   both are read and returned after the replies received before, the data socket is closed without a graceful
   shutdown, and the session is in step *)
Theorem download_cancelled_passive w path answers answers' answers'' ev r1 r2 r3 rest x1 x2 x4 x5 ip port pr :
  insync w (r1 :: r2 :: r3 :: rest) -> w_data w = None ->
  c_mode (w_cfg w) = Passive -> c_tls (w_cfg w) = false ->
  has_crlf path = false ->
  simple_reaction r1 x1 -> is_negative x1 = false -> passive_target (w_cfg w) x1 ip port ->
  dp_reachable (r_data r1) = true ->
  simple_reaction r2 x2 -> is_negative x2 = false ->
  data_recv (c_type (w_cfg w)) (mkSink None O) (dp_segs (r_data r2)) (dp_end (r_data r2)) (Some answers) = (ev, pr, Some answers') ->
  pr <> PThrow -> poll answers' = (true, answers'') ->
  r_now r3 = [RReply x4; RReply x5] -> r_on_close r3 = [] -> r_close_after r3 = false ->
  code x4 = 426 -> code x5 <> 421 ->
  exists w', step w (ADownload path (Some answers) None) = (OReturn (RvReplies [x1; x2; x4; x5]), w') /\
    insync w' rest /\ w_data w' = None /\ w_cfg w' = w_cfg w /\
    wire_events (skipn (length (w_trace w)) (w_trace w')) =
      [WLine (setup_line (w_cfg w)); WReply x1; WLine (RETR_ ++ SP :: path); WReply x2; WLine ABOR_; WReply x4; WReply x5] /\
    data_events (skipn (length (w_trace w)) (w_trace w')) = [DNewObj; DConnectTo ip port true; DClose] /\
    io_events (skipn (length (w_trace w)) (w_trace w')) = ev ++ [IoPoll true].
Proof.
  intros ((Ho & Hs & Hpc & Hb) & Hp & Hc) Hd Hm Htls Hpath (R1n & R1c & R1a & R1x) N1 Tgt Reach
         (R2n & R2c & R2a & X2) N2 DR NT PL R3n R3c R3a X4 X5.
  destruct w as [cfg f2 f3 f4 f5 f6 f7 f8 f9 f10 f11 f12 f13 f14 f15 f16 f17 f18 f19 f20].
  destruct cfg as [cm crfc cty ctls cres].
  cbn in Ho, Hs, Hpc, Hb, Hp, Hc, Hd, Hm, Htls, Tgt, DR. subst.
  destruct r1 as [n1 oc1 dp1 ca1 tl1 d1]. destruct r2 as [n2 oc2 dp2 ca2 tl2 d2]. destruct r3 as [n3 oc3 dp3 ca3 tl3 d3].
  cbn in R1n, R1c, R1a, Reach, R2n, R2c, R2a, R3n, R3c, R3a, DR. subst.
  assert (X4' : code x4 <> 421) by (rewrite X4; discriminate).
  assert (E426 : (code x4 =? 426) = true) by (apply N.eqb_eq; exact X4).
  rewrite step_download_unfold. unfold op_download.
  rewrite run_checkarg, Hpath, run_scope.
  unfold create_data_connection. rewrite run_getcfg. flat.
  destruct crfc; cbn [setup_line c_rfc2428].
  - destruct Tgt as (P1 & ->).
    erewrite (xchg EPSV_ None _ _ _ _ x1); [| repeat split; auto | reflexivity | repeat split; auto | exact I].
    cbv beta. rewrite N1, P1. cbv beta iota.
    rewrite run_dnew. rewrite run_dconnect by exact Reach.
    erewrite (xchg RETR_ (Some path) _ _ _ _ x2); [| repeat split; auto | reflexivity | repeat split; auto | exact Hpath].
    cbv beta. rewrite N2. cbv beta iota.
    rewrite (run_pumpin _ _ ev pr (Some answers')); [| exact DR | exact NT].
    unfold finish_transfer. rewrite (run_poll_some _ _ answers' true answers''); [| reflexivity | exact PL].
    cbv beta iota. unfold process_abort, process_command.
    rewrite run_send_none; [| reflexivity | exact Hs | reflexivity].
    rewrite (recv_reply _ _ (S (S f18)) x4 [(S (S f18), RReply x5)]); [| reflexivity | cbn; rewrite ?Hdp; reflexivity | exact X4'].
    cbv beta. rewrite E426.
    rewrite (recv_reply _ _ (S (S f18)) x5 []); [| reflexivity | reflexivity | exact X5].
    cbv beta.
    rewrite (run_ddisconnect_ng _ _ (mkD true false false)) by reflexivity.
    rewrite run_ret.
    eexists. split; [reflexivity|].
    split. { unfold insync, ready. cbn. rewrite Hs. destruct dp1, dp2, dp3; auto. }
    split; [reflexivity|]. split; [reflexivity|].
    trace_facts. auto.
  - destruct Tgt as (a & P1 & ->).
    erewrite (xchg PASV_ None _ _ _ _ x1); [| repeat split; auto | reflexivity | repeat split; auto | exact I].
    cbv beta. rewrite N1, P1. cbv beta iota.
    rewrite run_dnew. rewrite run_dconnect by exact Reach.
    erewrite (xchg RETR_ (Some path) _ _ _ _ x2); [| repeat split; auto | reflexivity | repeat split; auto | exact Hpath].
    cbv beta. rewrite N2. cbv beta iota.
    rewrite (run_pumpin _ _ ev pr (Some answers')); [| exact DR | exact NT].
    unfold finish_transfer. rewrite (run_poll_some _ _ answers' true answers''); [| reflexivity | exact PL].
    cbv beta iota. unfold process_abort, process_command.
    rewrite run_send_none; [| reflexivity | exact Hs | reflexivity].
    rewrite (recv_reply _ _ (S (S f18)) x4 [(S (S f18), RReply x5)]); [| reflexivity | cbn; rewrite ?Hdp; reflexivity | exact X4'].
    cbv beta. rewrite E426.
    rewrite (recv_reply _ _ (S (S f18)) x5 []); [| reflexivity | reflexivity | exact X5].
    cbv beta.
    rewrite (run_ddisconnect_ng _ _ (mkD true false false)) by reflexivity.
    rewrite run_ret.
    eexists. split; [reflexivity|].
    split. { unfold insync, ready. cbn. rewrite Hs. destruct dp1, dp2, dp3; auto. }
    split; [reflexivity|]. split; [reflexivity|].
    trace_facts. auto.
Qed.



Lemma run_dhandshake k w d : w_data w = Some d -> dp_tls_ok (w_plan w) = true ->
  run (DHandshakeP k) w =
  run k (emit (set_data w (Some (mkD (d_sock d) (d_acc d) true)))
              [EData (DHandshake (if c_resume (w_cfg w) then Some (w_sess_id w) else None) true)]).
Proof. intros H T. cbn [run]. rewrite H, T. reflexivity. Qed.

Lemma run_ddisconnect_tls g k w d : w_data w = Some d -> d_ssl d = true -> dp_shutdown_ok (w_plan w) = true ->
  run (DDisconnect g k) w = run k (close_data (emit w ([EData (DTlsShutdown true)] ++ (if g then [EData DTcpShutdown] else [])))).
Proof. intros H S T. cbn [run]. rewrite H, S, T. reflexivity. Qed.

(* C03 / C11 / C18 on a whole download over TLS, passive modes: the data connection is wrapped into TLS after the
   transfer command was accepted and before any byte is read, the handshake offers the control connection's session
   exactly when resumption is configured, the connection is shut down with close-notify before it is closed *)
Theorem download_passive_complete_tls w path r1 r2 rest x1 x2 x3 ip port :
  insync w (r1 :: r2 :: rest) -> w_data w = None ->
  c_mode (w_cfg w) = Passive -> c_tls (w_cfg w) = true ->
  has_crlf path = false ->
  simple_reaction r1 x1 -> is_negative x1 = false -> passive_target (w_cfg w) x1 ip port ->
  dp_reachable (r_data r1) = true ->
  accepts_transfer r2 x2 x3 -> dp_end (r_data r2) = DEof ->
  dp_tls_ok (r_data r2) = true -> dp_shutdown_ok (r_data r2) = true ->
  exists w', step w (ADownload path None None) = (OReturn (RvReplies [x1; x2; x3]), w') /\
    insync w' rest /\ w_data w' = None /\ w_cfg w' = w_cfg w /\
    w_sess_id w' = w_sess_id w /\ w_ssl w' = w_ssl w /\ w_tls_up w' = w_tls_up w /\
    sink_bytes (io_events (skipn (length (w_trace w)) (w_trace w'))) = delivered (c_type (w_cfg w)) (concat (dp_segs (r_data r2))) /\
    wire_events (skipn (length (w_trace w)) (w_trace w')) =
      [WLine (setup_line (w_cfg w)); WReply x1; WLine (RETR_ ++ SP :: path); WReply x2; WReply x3] /\
    data_events (skipn (length (w_trace w)) (w_trace w')) =
      [DNewObj; DConnectTo ip port true;
       DHandshake (if c_resume (w_cfg w) then Some (w_sess_id w) else None) true;
       DTlsShutdown true; DTcpShutdown; DClose].
Proof.
  intros ((Ho & Hs & Hpc & Hb) & Hp & Hc) Hd Hm Htls Hpath (R1n & R1c & R1a & R1x) N1 Tgt Reach
         (R2n & R2c & R2a & N2 & X2 & X3) End Tok Sok.
  destruct w as [cfg f2 f3 f4 f5 f6 f7 f8 f9 f10 f11 f12 f13 f14 f15 f16 f17 f18 f19 f20].
  destruct cfg as [cm crfc cty ctls cres].
  cbn in Ho, Hs, Hpc, Hb, Hp, Hc, Hd, Hm, Htls, Tgt. subst.
  destruct r1 as [n1 oc1 dp1 ca1 tl1 d1]. destruct r2 as [n2 oc2 dp2 ca2 tl2 d2].
  cbn in R1n, R1c, R1a, Reach, R2n, R2c, R2a, End, Tok, Sok. subst.
  destruct (data_recv cty (mkSink None O) (dp_segs d2) DEof None) as [[ev r] cb'] eqn:DR.
  pose proof (data_recv_nocb _ _ _ _ _ _ _ DR) as ->.
  pose proof (download_completes_any_type _ _ _ _ _ _ (eq_refl : good_sink (mkSink None O)) DR) as ->.
  pose proof (download_sink_any_type _ _ _ _ _ (eq_refl : good_sink (mkSink None O)) DR) as SB.
  rewrite step_download_unfold. unfold op_download.
  rewrite run_checkarg, Hpath, run_scope.
  unfold create_data_connection. rewrite run_getcfg. flat.
  destruct crfc; cbn [setup_line c_rfc2428].
  - destruct Tgt as (P1 & ->).
    erewrite (xchg EPSV_ None _ _ _ _ x1); [| repeat split; auto | reflexivity | repeat split; auto | exact I].
    cbv beta. rewrite N1, P1. cbv beta iota.
    rewrite run_dnew. rewrite run_dconnect by exact Reach.
    erewrite (xchg RETR_ (Some path) _ _ _ _ x2); [| repeat split; auto | reflexivity | repeat split; auto | exact Hpath].
    cbv beta. rewrite N2. cbv beta iota.
    rewrite (run_dhandshake _ _ (mkD true false false)); [| reflexivity | exact Tok].
    rewrite (run_pumpin _ _ ev PDone None); [| cbn; rewrite End; exact DR | discriminate].
    unfold finish_transfer. rewrite run_poll_none by reflexivity.
    rewrite (run_ddisconnect_tls true _ _ (mkD true false true)); [| reflexivity | reflexivity | exact Sok].
    rewrite (recv_reply _ _ (S f18) x3 []); [| reflexivity | cbn; rewrite !Hdp; reflexivity | exact X3].
    rewrite run_ret.
    eexists. split; [reflexivity|].
    split. { unfold insync, ready. cbn. rewrite Hs. auto. }
    split; [reflexivity|]. split; [reflexivity|]. split; [reflexivity|]. split; [reflexivity|]. split; [reflexivity|].
    trace_facts. auto.
  - destruct Tgt as (a & P1 & ->).
    erewrite (xchg PASV_ None _ _ _ _ x1); [| repeat split; auto | reflexivity | repeat split; auto | exact I].
    cbv beta. rewrite N1, P1. cbv beta iota.
    rewrite run_dnew. rewrite run_dconnect by exact Reach.
    erewrite (xchg RETR_ (Some path) _ _ _ _ x2); [| repeat split; auto | reflexivity | repeat split; auto | exact Hpath].
    cbv beta. rewrite N2. cbv beta iota.
    rewrite (run_dhandshake _ _ (mkD true false false)); [| reflexivity | exact Tok].
    rewrite (run_pumpin _ _ ev PDone None); [| cbn; rewrite End; exact DR | discriminate].
    unfold finish_transfer. rewrite run_poll_none by reflexivity.
    rewrite (run_ddisconnect_tls true _ _ (mkD true false true)); [| reflexivity | reflexivity | exact Sok].
    rewrite (recv_reply _ _ (S f18) x3 []); [| reflexivity | cbn; rewrite !Hdp; reflexivity | exact X3].
    rewrite run_ret.
    eexists. split; [reflexivity|].
    split. { unfold insync, ready. cbn. rewrite Hs. auto. }
    split; [reflexivity|]. split; [reflexivity|]. split; [reflexivity|]. split; [reflexivity|]. split; [reflexivity|].
    trace_facts. auto.
Qed.



Lemma step_connect_unfold w h p login : step w (AConnect h p login) = run (op_connect h p login) (set_io w no_io).
Proof. reflexivity. Qed.

Lemma run_ctlconnect h p k w s rest : w_open w = false -> w_script w = s :: rest -> s_reachable s = true ->
  run (CtlConnect h p k) w =
  run k (emit (mkW (w_cfg w) true false false O (s_tls_close_clean s) (r_close_after (s_greeting s))
                   (tag (w_ord w) (r_now (s_greeting s))) [] rest (s_reactions s) (s_ip6 s) false no_plan
                   (w_obs w) (w_data w) (w_io w) (S (w_ord w)) (w_next_sess w) (w_trace w))
              [ECtl (CConnect h p true)]).
Proof.
  intros Ho Hs Hr. cbn [run]. rewrite Ho.
  cbn [set_ctl set_queues w_script w_cfg w_obs w_data w_io w_ord w_next_sess w_trace].
  rewrite Hs, Hr. reflexivity.
Qed.

(* C02 / C13: connecting from a disconnected client: the greeting - one reply, or 120 followed by the final reply - is
   read completely and returned; the session starts in step with the new server's script, plain, nothing buffered *)
Theorem connect_plain w h p s srest g :
  w_open w = false -> w_script w = s :: srest -> s_reachable s = true -> c_tls (w_cfg w) = false ->
  r_now (s_greeting s) = [RReply g] -> r_close_after (s_greeting s) = false -> code g <> 421 -> code g <> 120 ->
  exists w', step w (AConnect h p None) = (OReturn (RvReplies [g]), w') /\
    insync w' (s_reactions s) /\ w_script w' = srest /\ w_ssl w' = false /\ w_cfg w' = w_cfg w /\
    w_cur6 w' = s_ip6 s /\ w_tls_clean w' = s_tls_close_clean s /\
    wire_events (skipn (length (w_trace w)) (w_trace w')) = [WReply g] /\
    obs_events (skipn (length (w_trace w)) (w_trace w')) = told (w_obs w) (OConnected h p) ++ told (w_obs w) (OReply g).
Proof.
  intros Ho Hscr Hre Htls Gn Gc G421 G120.
  destruct w as [cfg f2 f3 f4 f5 f6 f7 f8 f9 f10 f11 f12 f13 f14 f15 f16 f17 f18 f19 f20].
  destruct cfg as [cm crfc cty ctls cres].
  cbn in Ho, Hscr, Htls. subst.
  destruct s as [sr s6 scl sg srs]. destruct sg as [gn goc gdp gca gtl gd]. cbn in Hre, Gn, Gc. subst.
  apply N.eqb_neq in G120.
  rewrite step_connect_unfold. unfold op_connect.
  erewrite run_ctlconnect; [| reflexivity | reflexivity | reflexivity].
  rewrite run_notify.
  rewrite (recv_reply _ _ f18 g []); [| reflexivity | reflexivity | exact G421].
  cbv beta. rewrite G120.
  destruct (is_negative g).
  - rewrite run_ret. eexists. split; [reflexivity|].
    split. { unfold insync, ready. cbn. auto. }
    split; [reflexivity|]. split; [reflexivity|]. split; [reflexivity|]. split; [reflexivity|]. split; [reflexivity|].
    trace_facts. auto.
  - rewrite run_getcfg. flat. rewrite run_ret. eexists. split; [reflexivity|].
    split. { unfold insync, ready. cbn. auto. }
    split; [reflexivity|]. split; [reflexivity|]. split; [reflexivity|]. split; [reflexivity|]. split; [reflexivity|].
    trace_facts. auto.
Qed.

Theorem connect_120_then_220 w h p s srest g1 g2 :
  w_open w = false -> w_script w = s :: srest -> s_reachable s = true -> c_tls (w_cfg w) = false ->
  r_now (s_greeting s) = [RReply g1; RReply g2] -> r_close_after (s_greeting s) = false ->
  code g1 = 120 -> code g2 <> 421 ->
  exists w', step w (AConnect h p None) = (OReturn (RvReplies [g1; g2]), w') /\
    insync w' (s_reactions s) /\ w_script w' = srest /\
    wire_events (skipn (length (w_trace w)) (w_trace w')) = [WReply g1; WReply g2].
Proof.
  intros Ho Hscr Hre Htls Gn Gc G120 G421.
  destruct w as [cfg f2 f3 f4 f5 f6 f7 f8 f9 f10 f11 f12 f13 f14 f15 f16 f17 f18 f19 f20].
  destruct cfg as [cm crfc cty ctls cres].
  cbn in Ho, Hscr, Htls. subst.
  destruct s as [sr s6 scl sg srs]. destruct sg as [gn goc gdp gca gtl gd]. cbn in Hre, Gn, Gc. subst.
  assert (G1 : code g1 <> 421) by (rewrite G120; discriminate).
  assert (E120 : (code g1 =? 120) = true) by (apply N.eqb_eq; exact G120).
  rewrite step_connect_unfold. unfold op_connect.
  erewrite run_ctlconnect; [| reflexivity | reflexivity | reflexivity].
  rewrite run_notify.
  rewrite (recv_reply _ _ f18 g1 [(f18, RReply g2)]); [| reflexivity | reflexivity | exact G1].
  cbv beta. rewrite E120.
  rewrite (recv_reply _ _ f18 g2 []); [| reflexivity | reflexivity | exact G421].
  cbv beta.
  destruct (is_negative g2).
  - rewrite run_ret. eexists. split; [reflexivity|].
    split. { unfold insync, ready. cbn. auto. }
    split; [reflexivity|]. trace_facts. auto.
  - rewrite run_getcfg. flat. rewrite run_ret. eexists. split; [reflexivity|].
    split. { unfold insync, ready. cbn. auto. }
    split; [reflexivity|]. trace_facts. auto.
Qed.

Lemma run_ctlsetssl on k w : run (CtlSetSsl on k) w = run k (emit (set_ctl w (w_open w) on false O) [ECtl (CSetSsl on)]).
Proof. reflexivity. Qed.

Lemma run_ctlhandshake k w : w_last_tls_ok w = true -> w_peer_closed w = false ->
  run (CtlHandshake k) w =
  run k (emit (mkW (w_cfg w) (w_open w) (w_ssl w) true (w_next_sess w) (w_tls_clean w) (w_peer_closed w)
                   (w_backlog w) (w_pending w) (w_script w) (w_cur w) (w_cur6 w) (w_last_tls_ok w) (w_plan w)
                   (w_obs w) (w_data w) (w_io w) (w_ord w) (S (w_next_sess w)) (w_trace w))
              [ECtl (CHandshake true (w_next_sess w))]).
Proof.
  intros H P. cbn [run]. replace (w_last_tls_ok w && negb (w_peer_closed w)) with true by (rewrite H, P; reflexivity).
  reflexivity.
Qed.

(* C11: connecting with a TLS context: after a positive greeting exactly AUTH TLS goes out, in clear; on a positive
   answer the socket is switched to TLS and the handshake completed before anything else; the session is then secured
   with a fresh session identifier; everything the call added to the trace, in order *)
Theorem connect_tls w h p s srest g r1 rs a :
  w_open w = false -> w_script w = s :: srest -> s_reachable s = true -> c_tls (w_cfg w) = true ->
  r_now (s_greeting s) = [RReply g] -> r_close_after (s_greeting s) = false -> code g <> 421 -> code g <> 120 ->
  is_negative g = false ->
  s_reactions s = r1 :: rs -> simple_reaction r1 a -> is_negative a = false -> r_tls_ok r1 = true ->
  exists w', step w (AConnect h p None) = (OReturn (RvReplies [g; a]), w') /\
    insync w' rs /\ w_ssl w' = true /\ w_tls_up w' = true /\ w_sess_id w' = w_next_sess w /\
    w_script w' = srest /\ w_cfg w' = w_cfg w /\ w_cur6 w' = s_ip6 s /\ w_tls_clean w' = s_tls_close_clean s /\ w_data w' = w_data w /\
    skipn (length (w_trace w)) (w_trace w') =
      [ECtl (CConnect h p true)] ++ block (w_obs w) (OConnected h p) ++ [ERecv (w_ord w) g] ++ block (w_obs w) (OReply g) ++
      block (w_obs w) (ORequest AUTH_TLS) ++ [EWire false (S (w_ord w)) AUTH_TLS] ++ [ERecv (S (w_ord w)) a] ++
      block (w_obs w) (OReply a) ++ [ECtl (CSetSsl true); ECtl (CHandshake true (w_next_sess w))].
Proof.
  intros Ho Hscr Hre Htls Gn Gc G421 G120 Ng Hrs (R1n & R1c & R1a & R1x) Na Tok.
  destruct w as [cfg f2 f3 f4 f5 f6 f7 f8 f9 f10 f11 f12 f13 f14 f15 f16 f17 f18 f19 f20].
  destruct cfg as [cm crfc cty ctls cres].
  cbn in Ho, Hscr, Htls. subst.
  destruct s as [sr s6 scl sg srs]. destruct sg as [gn goc gdp gca gtl gd]. cbn in Hre, Gn, Gc, Hrs. subst.
  destruct r1 as [n1 oc1 dp1 ca1 tl1 d1]. cbn in R1n, R1c, R1a, Tok. subst.
  apply N.eqb_neq in G120.
  rewrite step_connect_unfold. unfold op_connect.
  erewrite run_ctlconnect; [| reflexivity | reflexivity | reflexivity].
  rewrite run_notify.
  rewrite (recv_reply _ _ f18 g []); [| reflexivity | reflexivity | exact G421].
  cbv beta. rewrite G120, Ng. rewrite run_getcfg. flat. unfold process_raw.
  erewrite (xchg_line AUTH_TLS _ _ _ _ a); [| repeat split; auto | reflexivity | repeat split; auto].
  cbv beta. rewrite Na. rewrite run_ctlsetssl. rewrite run_ctlhandshake; [| reflexivity | reflexivity].
  rewrite run_ret.
  eexists. split; [reflexivity|].
  split. { unfold insync, ready. cbn. destruct dp1; auto. }
  split; [reflexivity|]. split; [reflexivity|]. split; [reflexivity|].
  split; [reflexivity|]. split; [reflexivity|]. split; [reflexivity|]. split; [reflexivity|]. split; [reflexivity|].
  unfold block. cbn. rewrite <- !app_assoc, skipn_app_len. reflexivity.
Qed.

(* C18: any number of consecutive downloads over TLS on one control connection: every data handshake offers the SAME
   session - the one of the control connection - when resumption is configured (and none when it is not) *)
Definition tls_download_script (cfg : config) (r1 r2 : reaction) (x1 x2 x3 : reply) (ip : option bytes) (port : N) : Prop :=
  simple_reaction r1 x1 /\ is_negative x1 = false /\ passive_target cfg x1 ip port /\ dp_reachable (r_data r1) = true /\
  accepts_transfer r2 x2 x3 /\ dp_end (r_data r2) = DEof /\ dp_tls_ok (r_data r2) = true /\ dp_shutdown_ok (r_data r2) = true.

Fixpoint handshakes (tr : list event) : list (option nat) :=
  match tr with
  | [] => []
  | EData (DHandshake offered _) :: t => offered :: handshakes t
  | _ :: t => handshakes t
  end.
Lemma handshakes_app a b : handshakes (a ++ b) = handshakes a ++ handshakes b.
Proof. induction a as [|e a IH]; [reflexivity|]. cbn [app handshakes]. destruct e as [| | | | | |d| ]; try exact IH. destruct d; try exact IH. cbn [app]. rewrite IH. reflexivity. Qed.

Lemma data_events_handshakes tr : handshakes tr = handshakes (map EData (data_events tr)).
Proof.
  induction tr as [|e tr IH]; [reflexivity|]. unfold data_events in *. cbn [map concat].
  destruct e as [| | | | | |d| ]; cbn [handshakes app map]; try exact IH. destruct d; cbn [handshakes app map]; rewrite ?IH; reflexivity.
Qed.

Lemma step_ext w a : ext w (snd (step w a)).
Proof.
  assert (R : forall w0, w_trace w0 = w_trace w -> ext w w0) by (intros w0 H; exists []; rewrite app_nil_r; exact H).
  destruct a; unfold step; cbn [snd]; try (apply R; reflexivity); (eapply ext_trans; [|apply run_ext]; apply R; reflexivity).
Qed.

(* scripts of k downloads over TLS *)
Inductive tls_download_scripts (cfg : config) : list bytes -> list reaction -> Prop :=
| tds_nil : tls_download_scripts cfg [] []
| tds_cons path paths r1 r2 x1 x2 x3 ip port rs :
    has_crlf path = false -> tls_download_script cfg r1 r2 x1 x2 x3 ip port ->
    tls_download_scripts cfg paths rs -> tls_download_scripts cfg (path :: paths) (r1 :: r2 :: rs).

Theorem consecutive_tls_downloads_offer_the_control_session : forall paths rs,
  forall w rest, tls_download_scripts (w_cfg w) paths rs ->
  insync w (rs ++ rest) -> w_data w = None -> c_mode (w_cfg w) = Passive -> c_tls (w_cfg w) = true ->
  let w' := snd (steps w (map (fun p => ADownload p None None) paths)) in
  insync w' rest /\ w_sess_id w' = w_sess_id w /\
  handshakes (skipn (length (w_trace w)) (w_trace w')) =
    repeat (if c_resume (w_cfg w) then Some (w_sess_id w) else None) (length paths).
Proof.
  induction paths as [|path paths IH]; intros rs w rest Hs Hi Hd Hm Ht; inversion Hs; subst.
  - cbn. split; [exact Hi|]. split; [reflexivity|]. rewrite skipn_all. reflexivity.
  - match goal with H : tls_download_script _ _ _ _ _ _ _ _ |- _ => destruct H as (S1 & N1 & Tg & Re & Ac & En & Tk & Sk) end.
    cbn [app] in Hi.
    destruct (download_passive_complete_tls w path r1 r2 (rs0 ++ rest) x1 x2 x3 ip port Hi Hd Hm Ht ltac:(assumption) S1 N1 Tg Re Ac En Tk Sk)
      as (w1 & E & I1 & D1 & C1 & Sid & _ & _ & _ & _ & De).
    cbn [map steps]. rewrite E.
    pose proof (step_ext w (ADownload path None None)) as (tr1 & T1). rewrite E in T1. cbn [snd] in T1.
    rewrite T1, skipn_app_len in De.
    assert (Hs1 : tls_download_scripts (w_cfg w1) paths rs0) by (rewrite C1; assumption).
    specialize (IH rs0 w1 rest Hs1 I1 D1 ltac:(rewrite C1; exact Hm) ltac:(rewrite C1; exact Ht)).
    cbv zeta in IH. destruct (steps w1 (map (fun p => ADownload p None None) paths)) as [os w2] eqn:St.
    cbn [snd] in *. destruct IH as (I2 & S2 & H2).
    split; [exact I2|]. split; [congruence|].
    (* the trace of w2 extends that of w1 *)
    assert (X : ext w1 w2).
    { clear - St. revert w1 os w2 St. induction (map (fun p => ADownload p None None) paths) as [|a l IHl]; intros w1 os w2 St.
      - cbn in St. inversion St. apply ext_refl.
      - cbn [steps] in St. pose proof (step_ext w1 a) as X1. destruct (step w1 a) as [o w3]. cbn [snd] in X1.
        destruct o.
        + destruct (steps w3 l) as [os' w4] eqn:S'. inversion St; subst. eapply ext_trans; [exact X1|]. eapply IHl; eassumption.
        + destruct (steps w3 l) as [os' w4] eqn:S'. inversion St; subst. eapply ext_trans; [exact X1|]. eapply IHl; eassumption.
        + inversion St; subst. exact X1. }
    destruct X as (tr2 & T2).
    rewrite T2, T1, <- app_assoc, skipn_app_len, handshakes_app.
    rewrite T2, skipn_app_len in H2. rewrite H2.
    rewrite data_events_handshakes, De. cbn [map handshakes length repeat app]. rewrite C1, Sid. reflexivity.
Qed.



Theorem upload_passive_complete_tls w u path chunks r1 r2 rest x1 x2 x3 ip port :
  insync w (r1 :: r2 :: rest) -> w_data w = None ->
  c_mode (w_cfg w) = Passive -> c_tls (w_cfg w) = true ->
  has_crlf path = false ->
  simple_reaction r1 x1 -> is_negative x1 = false -> passive_target (w_cfg w) x1 ip port ->
  dp_reachable (r_data r1) = true ->
  accepts_transfer r2 x2 x3 ->
  dp_tls_ok (r_data r2) = true -> dp_shutdown_ok (r_data r2) = true ->
  exists w', step w (AUpload u path chunks None) = (OReturn (RvReplies [x1; x2; x3]), w') /\
    insync w' rest /\ w_data w' = None /\ w_cfg w' = w_cfg w /\
    net_out_bytes (io_events (skipn (length (w_trace w)) (w_trace w'))) = sent (c_type (w_cfg w)) chunks /\
    wire_events (skipn (length (w_trace w)) (w_trace w')) =
      [WLine (setup_line (w_cfg w)); WReply x1; WLine (upverb_bytes u ++ SP :: path); WReply x2; WReply x3] /\
    data_events (skipn (length (w_trace w)) (w_trace w')) =
      [DNewObj; DConnectTo ip port true;
       DHandshake (if c_resume (w_cfg w) then Some (w_sess_id w) else None) true;
       DTlsShutdown true; DTcpShutdown; DClose].
Proof.
  intros ((Ho & Hs & Hpc & Hb) & Hp & Hc) Hd Hm Htls Hpath (R1n & R1c & R1a & R1x) N1 Tgt Reach
         (R2n & R2c & R2a & N2 & X2 & X3) Tok Sok.
  destruct w as [cfg f2 f3 f4 f5 f6 f7 f8 f9 f10 f11 f12 f13 f14 f15 f16 f17 f18 f19 f20].
  destruct cfg as [cm crfc cty ctls cres].
  cbn in Ho, Hs, Hpc, Hb, Hp, Hc, Hd, Hm, Htls, Tgt. subst.
  destruct r1 as [n1 oc1 dp1 ca1 tl1 d1]. destruct r2 as [n2 oc2 dp2 ca2 tl2 d2].
  cbn in R1n, R1c, R1a, Reach, R2n, R2c, R2a, Tok, Sok. subst.
  destruct (data_send cty block_size chunks None) as [[ev r] cb'] eqn:DS.
  pose proof (data_send_nocb _ _ _ _ _ _ DS) as ->.
  pose proof (upload_completes_without_callback _ _ _ _ _ _ DS) as ->.
  pose proof (upload_net_any_type _ _ _ _ DS) as NB.
  rewrite step_upload_unfold. unfold op_upload.
  rewrite run_checkarg, Hpath, run_scope.
  unfold create_data_connection. rewrite run_getcfg. flat.
  destruct crfc; cbn [setup_line c_rfc2428].
  - destruct Tgt as (P1 & ->).
    erewrite (xchg EPSV_ None _ _ _ _ x1); [| repeat split; auto | reflexivity | repeat split; auto | exact I].
    cbv beta. rewrite N1, P1. cbv beta iota.
    rewrite run_dnew. rewrite run_dconnect by exact Reach.
    erewrite (xchg (upverb_bytes u) (Some path) _ _ _ _ x2); [| repeat split; auto | reflexivity | repeat split; auto | exact Hpath].
    cbv beta. rewrite N2. cbv beta iota.
    rewrite (run_dhandshake _ _ (mkD true false false)); [| reflexivity | exact Tok].
    rewrite (run_pumpout _ _ ev PDone None); [| exact DS | discriminate].
    unfold finish_transfer. rewrite run_poll_none by reflexivity.
    rewrite (run_ddisconnect_tls true _ _ (mkD true false true)); [| reflexivity | reflexivity | exact Sok].
    rewrite (recv_reply _ _ (S f18) x3 []); [| reflexivity | cbn; rewrite !Hdp; reflexivity | exact X3].
    rewrite run_ret.
    eexists. split; [reflexivity|].
    split. { unfold insync, ready. cbn. rewrite Hs. auto. }
    split; [reflexivity|]. split; [reflexivity|].
    trace_facts. auto.
  - destruct Tgt as (a & P1 & ->).
    erewrite (xchg PASV_ None _ _ _ _ x1); [| repeat split; auto | reflexivity | repeat split; auto | exact I].
    cbv beta. rewrite N1, P1. cbv beta iota.
    rewrite run_dnew. rewrite run_dconnect by exact Reach.
    erewrite (xchg (upverb_bytes u) (Some path) _ _ _ _ x2); [| repeat split; auto | reflexivity | repeat split; auto | exact Hpath].
    cbv beta. rewrite N2. cbv beta iota.
    rewrite (run_dhandshake _ _ (mkD true false false)); [| reflexivity | exact Tok].
    rewrite (run_pumpout _ _ ev PDone None); [| exact DS | discriminate].
    unfold finish_transfer. rewrite run_poll_none by reflexivity.
    rewrite (run_ddisconnect_tls true _ _ (mkD true false true)); [| reflexivity | reflexivity | exact Sok].
    rewrite (recv_reply _ _ (S f18) x3 []); [| reflexivity | cbn; rewrite !Hdp; reflexivity | exact X3].
    rewrite run_ret.
    eexists. split; [reflexivity|].
    split. { unfold insync, ready. cbn. rewrite Hs. auto. }
    split; [reflexivity|]. split; [reflexivity|].
    trace_facts. auto.
Qed.

Theorem list_passive_complete_tls w path names r1 r2 rest x1 x2 x3 ip port :
  insync w (r1 :: r2 :: rest) -> w_data w = None ->
  c_mode (w_cfg w) = Passive -> c_tls (w_cfg w) = true ->
  arg_ok path ->
  simple_reaction r1 x1 -> is_negative x1 = false -> passive_target (w_cfg w) x1 ip port ->
  dp_reachable (r_data r1) = true ->
  accepts_transfer r2 x2 x3 -> dp_end (r_data r2) = DEof ->
  dp_tls_ok (r_data r2) = true -> dp_shutdown_ok (r_data r2) = true ->
  exists w', step w (AList path names) = (OReturn (RvList [x1; x2; x3] (delivered (c_type (w_cfg w)) (concat (dp_segs (r_data r2))))), w') /\
    insync w' rest /\ w_data w' = None /\ w_cfg w' = w_cfg w /\
    wire_events (skipn (length (w_trace w)) (w_trace w')) =
      [WLine (setup_line (w_cfg w)); WReply x1; WLine (line_of (if names then NLST_ else LIST_) path); WReply x2; WReply x3] /\
    data_events (skipn (length (w_trace w)) (w_trace w')) =
      [DNewObj; DConnectTo ip port true;
       DHandshake (if c_resume (w_cfg w) then Some (w_sess_id w) else None) true;
       DTlsShutdown true; DTcpShutdown; DClose] /\
    obs_events (skipn (length (w_trace w)) (w_trace w')) =
      told (w_obs w) (ORequest (setup_line (w_cfg w))) ++ told (w_obs w) (OReply x1) ++
      told (w_obs w) (ORequest (line_of (if names then NLST_ else LIST_) path)) ++ told (w_obs w) (OReply x2) ++
      told (w_obs w) (OFileList (delivered (c_type (w_cfg w)) (concat (dp_segs (r_data r2))))) ++ told (w_obs w) (OReply x3).
Proof.
  intros ((Ho & Hs & Hpc & Hb) & Hp & Hc) Hd Hm Htls Hpath (R1n & R1c & R1a & R1x) N1 Tgt Reach
         (R2n & R2c & R2a & N2 & X2 & X3) End Tok Sok.
  destruct w as [cfg f2 f3 f4 f5 f6 f7 f8 f9 f10 f11 f12 f13 f14 f15 f16 f17 f18 f19 f20].
  destruct cfg as [cm crfc cty ctls cres].
  cbn in Ho, Hs, Hpc, Hb, Hp, Hc, Hd, Hm, Htls, Tgt. subst.
  destruct r1 as [n1 oc1 dp1 ca1 tl1 d1]. destruct r2 as [n2 oc2 dp2 ca2 tl2 d2].
  cbn in R1n, R1c, R1a, Reach, R2n, R2c, R2a, End, Tok, Sok. subst.
  destruct (data_recv cty (mkSink None O) (dp_segs d2) DEof None) as [[ev r] cb'] eqn:DR.
  pose proof (download_completes_any_type _ _ _ _ _ _ (eq_refl : good_sink (mkSink None O)) DR) as ->.
  pose proof (download_sink_any_type _ _ _ _ _ (eq_refl : good_sink (mkSink None O)) DR) as SB.
  rewrite step_list_unfold. unfold op_list.
  assert (Hcheck : has_crlf (match path with Some p => p | None => [] end) = false).
  { destruct path as [p|]; [exact Hpath|reflexivity]. }
  rewrite run_checkarg, Hcheck, run_scope.
  unfold create_data_connection. rewrite run_getcfg. flat.
  destruct crfc; cbn [setup_line c_rfc2428].
  - destruct Tgt as (P1 & ->).
    erewrite (xchg EPSV_ None _ _ _ _ x1); [| repeat split; auto | reflexivity | repeat split; auto | exact I].
    cbv beta. rewrite N1, P1. cbv beta iota.
    rewrite run_dnew. rewrite run_dconnect by exact Reach.
    erewrite (xchg (if names then NLST_ else LIST_) path _ _ _ _ x2); [| repeat split; auto | reflexivity | repeat split; auto | exact Hpath].
    cbv beta. rewrite N2. cbv beta iota.
    rewrite (run_dhandshake _ _ (mkD true false false)); [| reflexivity | exact Tok].
    rewrite (run_pumpinlist _ _ ev PDone cb'); [| cbn; rewrite End; exact DR | discriminate].
    rewrite run_notify.
    rewrite (run_ddisconnect_tls true _ _ (mkD true false true)); [| reflexivity | reflexivity | exact Sok].
    rewrite (recv_reply _ _ (S f18) x3 []); [| reflexivity | cbn; rewrite !Hdp; reflexivity | exact X3].
    rewrite run_ret, SB.
    eexists. split; [reflexivity|].
    split. { unfold insync, ready. cbn. rewrite Hs. auto. }
    split; [reflexivity|]. split; [reflexivity|].
    trace_facts. auto.
  - destruct Tgt as (a & P1 & ->).
    erewrite (xchg PASV_ None _ _ _ _ x1); [| repeat split; auto | reflexivity | repeat split; auto | exact I].
    cbv beta. rewrite N1, P1. cbv beta iota.
    rewrite run_dnew. rewrite run_dconnect by exact Reach.
    erewrite (xchg (if names then NLST_ else LIST_) path _ _ _ _ x2); [| repeat split; auto | reflexivity | repeat split; auto | exact Hpath].
    cbv beta. rewrite N2. cbv beta iota.
    rewrite (run_dhandshake _ _ (mkD true false false)); [| reflexivity | exact Tok].
    rewrite (run_pumpinlist _ _ ev PDone cb'); [| cbn; rewrite End; exact DR | discriminate].
    rewrite run_notify.
    rewrite (run_ddisconnect_tls true _ _ (mkD true false true)); [| reflexivity | reflexivity | exact Sok].
    rewrite (recv_reply _ _ (S f18) x3 []); [| reflexivity | cbn; rewrite !Hdp; reflexivity | exact X3].
    rewrite run_ret, SB.
    eexists. split; [reflexivity|].
    split. { unfold insync, ready. cbn. rewrite Hs. auto. }
    split; [reflexivity|]. split; [reflexivity|].
    trace_facts. auto.
Qed.



Theorem upload_active_complete w u path chunks r1 r2 rest x1 x2 x3 line :
  insync w (r1 :: r2 :: rest) -> w_data w = None ->
  c_mode (w_cfg w) = Active -> c_tls (w_cfg w) = false ->
  has_crlf path = false -> adv_cmd w = Some line ->
  simple_reaction r1 x1 -> is_negative x1 = false ->
  accepts_transfer r2 x2 x3 -> dp_reachable (r_data r2) = true ->
  exists w', step w (AUpload u path chunks None) = (OReturn (RvReplies [x1; x2; x3]), w') /\
    insync w' rest /\ w_data w' = None /\ w_cfg w' = w_cfg w /\
    net_out_bytes (io_events (skipn (length (w_trace w)) (w_trace w'))) = sent (c_type (w_cfg w)) chunks /\
    wire_events (skipn (length (w_trace w)) (w_trace w')) =
      [WLine line; WReply x1; WLine (upverb_bytes u ++ SP :: path); WReply x2; WReply x3] /\
    data_events (skipn (length (w_trace w)) (w_trace w')) =
      [DNewObj; DListen; DAcceptOk; DTcpShutdown; DClose; DAccClose].
Proof.
  intros ((Ho & Hs & Hpc & Hb) & Hp & Hc) Hd Hm Htls Hpath Hadv (R1n & R1c & R1a & R1x) N1
         (R2n & R2c & R2a & N2 & X2 & X3) Reach.
  destruct w as [cfg f2 f3 f4 f5 f6 f7 f8 f9 f10 f11 f12 f13 f14 f15 f16 f17 f18 f19 f20].
  destruct cfg as [cm crfc cty ctls cres].
  cbn in Ho, Hs, Hpc, Hb, Hp, Hc, Hd, Hm, Htls. subst.
  destruct r1 as [n1 oc1 dp1 ca1 tl1 d1]. destruct r2 as [n2 oc2 dp2 ca2 tl2 d2].
  cbn in R1n, R1c, R1a, Reach, R2n, R2c, R2a. subst.
  unfold adv_cmd in Hadv. cbn [w_cfg c_rfc2428] in Hadv.
  destruct (data_send cty block_size chunks None) as [[ev r] cb'] eqn:DS.
  pose proof (data_send_nocb _ _ _ _ _ _ DS) as ->.
  pose proof (upload_completes_without_callback _ _ _ _ _ _ DS) as ->.
  pose proof (upload_net_any_type _ _ _ _ DS) as NB.
  rewrite step_upload_unfold. unfold op_upload.
  rewrite run_checkarg, Hpath, run_scope.
  unfold create_data_connection. rewrite run_getcfg. flat.
  rewrite run_isopen. flat. rewrite run_dnew, run_dlisten.
  erewrite (xchg_adv (if crfc then AdvEprt else AdvPort) _ _ line _ _ x1);
    [| repeat split; auto | reflexivity | repeat split; auto | destruct crfc; exact Hadv].
  cbv beta. rewrite N1. cbv beta iota.
  erewrite (xchg (upverb_bytes u) (Some path) _ _ _ _ x2); [| repeat split; auto | reflexivity | repeat split; auto | exact Hpath].
  cbv beta. rewrite N2. cbv beta iota.
  rewrite run_daccept by exact Reach.
  rewrite (run_pumpout _ _ ev PDone None); [| exact DS | discriminate].
  unfold finish_transfer. rewrite run_poll_none by reflexivity.
  rewrite (run_ddisconnect true _ _ (mkD true true false)) by reflexivity.
  rewrite (recv_reply _ _ (S f18) x3 []); [| reflexivity | cbn; rewrite !Hdp; reflexivity | exact X3].
  rewrite run_ret.
  eexists. split; [reflexivity|].
  split. { unfold insync, ready. cbn. rewrite Hs. auto. }
  split; [reflexivity|]. split; [reflexivity|].
  trace_facts. auto.
Qed.

Theorem list_active_complete w path names r1 r2 rest x1 x2 x3 line :
  insync w (r1 :: r2 :: rest) -> w_data w = None ->
  c_mode (w_cfg w) = Active -> c_tls (w_cfg w) = false ->
  arg_ok path -> adv_cmd w = Some line ->
  simple_reaction r1 x1 -> is_negative x1 = false ->
  accepts_transfer r2 x2 x3 -> dp_reachable (r_data r2) = true -> dp_end (r_data r2) = DEof ->
  exists w', step w (AList path names) = (OReturn (RvList [x1; x2; x3] (delivered (c_type (w_cfg w)) (concat (dp_segs (r_data r2))))), w') /\
    insync w' rest /\ w_data w' = None /\ w_cfg w' = w_cfg w /\
    wire_events (skipn (length (w_trace w)) (w_trace w')) =
      [WLine line; WReply x1; WLine (line_of (if names then NLST_ else LIST_) path); WReply x2; WReply x3] /\
    data_events (skipn (length (w_trace w)) (w_trace w')) =
      [DNewObj; DListen; DAcceptOk; DTcpShutdown; DClose; DAccClose].
Proof.
  intros ((Ho & Hs & Hpc & Hb) & Hp & Hc) Hd Hm Htls Hpath Hadv (R1n & R1c & R1a & R1x) N1
         (R2n & R2c & R2a & N2 & X2 & X3) Reach End.
  destruct w as [cfg f2 f3 f4 f5 f6 f7 f8 f9 f10 f11 f12 f13 f14 f15 f16 f17 f18 f19 f20].
  destruct cfg as [cm crfc cty ctls cres].
  cbn in Ho, Hs, Hpc, Hb, Hp, Hc, Hd, Hm, Htls. subst.
  destruct r1 as [n1 oc1 dp1 ca1 tl1 d1]. destruct r2 as [n2 oc2 dp2 ca2 tl2 d2].
  cbn in R1n, R1c, R1a, Reach, R2n, R2c, R2a, End. subst.
  unfold adv_cmd in Hadv. cbn [w_cfg c_rfc2428] in Hadv.
  destruct (data_recv cty (mkSink None O) (dp_segs d2) DEof None) as [[ev r] cb'] eqn:DR.
  pose proof (download_completes_any_type _ _ _ _ _ _ (eq_refl : good_sink (mkSink None O)) DR) as ->.
  pose proof (download_sink_any_type _ _ _ _ _ (eq_refl : good_sink (mkSink None O)) DR) as SB.
  rewrite step_list_unfold. unfold op_list.
  assert (Hcheck : has_crlf (match path with Some p => p | None => [] end) = false).
  { destruct path as [p|]; [exact Hpath|reflexivity]. }
  rewrite run_checkarg, Hcheck, run_scope.
  unfold create_data_connection. rewrite run_getcfg. flat.
  rewrite run_isopen. flat. rewrite run_dnew, run_dlisten.
  erewrite (xchg_adv (if crfc then AdvEprt else AdvPort) _ _ line _ _ x1);
    [| repeat split; auto | reflexivity | repeat split; auto | destruct crfc; exact Hadv].
  cbv beta. rewrite N1. cbv beta iota.
  erewrite (xchg (if names then NLST_ else LIST_) path _ _ _ _ x2); [| repeat split; auto | reflexivity | repeat split; auto | exact Hpath].
  cbv beta. rewrite N2. cbv beta iota.
  rewrite run_daccept by exact Reach.
  rewrite (run_pumpinlist _ _ ev PDone cb'); [| cbn; rewrite End; exact DR | discriminate].
  rewrite run_notify.
  rewrite (run_ddisconnect true _ _ (mkD true true false)) by reflexivity.
  rewrite (recv_reply _ _ (S f18) x3 []); [| reflexivity | cbn; rewrite !Hdp; reflexivity | exact X3].
  rewrite run_ret, SB.
  eexists. split; [reflexivity|].
  split. { unfold insync, ready. cbn. rewrite Hs. auto. }
  split; [reflexivity|]. split; [reflexivity|].
  trace_facts. auto.
Qed.



Theorem download_active_complete_tls w path r1 r2 rest x1 x2 x3 line :
  insync w (r1 :: r2 :: rest) -> w_data w = None ->
  c_mode (w_cfg w) = Active -> c_tls (w_cfg w) = true ->
  has_crlf path = false -> adv_cmd w = Some line ->
  simple_reaction r1 x1 -> is_negative x1 = false ->
  accepts_transfer r2 x2 x3 -> dp_reachable (r_data r2) = true -> dp_end (r_data r2) = DEof ->
  dp_tls_ok (r_data r2) = true -> dp_shutdown_ok (r_data r2) = true ->
  exists w', step w (ADownload path None None) = (OReturn (RvReplies [x1; x2; x3]), w') /\
    insync w' rest /\ w_data w' = None /\ w_cfg w' = w_cfg w /\
    sink_bytes (io_events (skipn (length (w_trace w)) (w_trace w'))) = delivered (c_type (w_cfg w)) (concat (dp_segs (r_data r2))) /\
    wire_events (skipn (length (w_trace w)) (w_trace w')) =
      [WLine line; WReply x1; WLine (RETR_ ++ SP :: path); WReply x2; WReply x3] /\
    data_events (skipn (length (w_trace w)) (w_trace w')) =
      [DNewObj; DListen; DAcceptOk;
       DHandshake (if c_resume (w_cfg w) then Some (w_sess_id w) else None) true;
       DTlsShutdown true; DTcpShutdown; DClose; DAccClose].
Proof.
  intros ((Ho & Hs & Hpc & Hb) & Hp & Hc) Hd Hm Htls Hpath Hadv (R1n & R1c & R1a & R1x) N1
         (R2n & R2c & R2a & N2 & X2 & X3) Reach End Tok Sok.
  destruct w as [cfg f2 f3 f4 f5 f6 f7 f8 f9 f10 f11 f12 f13 f14 f15 f16 f17 f18 f19 f20].
  destruct cfg as [cm crfc cty ctls cres].
  cbn in Ho, Hs, Hpc, Hb, Hp, Hc, Hd, Hm, Htls. subst.
  destruct r1 as [n1 oc1 dp1 ca1 tl1 d1]. destruct r2 as [n2 oc2 dp2 ca2 tl2 d2].
  cbn in R1n, R1c, R1a, Reach, R2n, R2c, R2a, End, Tok, Sok. subst.
  unfold adv_cmd in Hadv. cbn [w_cfg c_rfc2428] in Hadv.
  destruct (data_recv cty (mkSink None O) (dp_segs d2) DEof None) as [[ev r] cb'] eqn:DR.
  pose proof (data_recv_nocb _ _ _ _ _ _ _ DR) as ->.
  pose proof (download_completes_any_type _ _ _ _ _ _ (eq_refl : good_sink (mkSink None O)) DR) as ->.
  pose proof (download_sink_any_type _ _ _ _ _ (eq_refl : good_sink (mkSink None O)) DR) as SB.
  rewrite step_download_unfold. unfold op_download.
  rewrite run_checkarg, Hpath, run_scope.
  unfold create_data_connection. rewrite run_getcfg. flat.
  rewrite run_isopen. flat. rewrite run_dnew, run_dlisten.
  erewrite (xchg_adv (if crfc then AdvEprt else AdvPort) _ _ line _ _ x1);
    [| repeat split; auto | reflexivity | repeat split; auto | destruct crfc; exact Hadv].
  cbv beta. rewrite N1. cbv beta iota.
  erewrite (xchg RETR_ (Some path) _ _ _ _ x2); [| repeat split; auto | reflexivity | repeat split; auto | exact Hpath].
  cbv beta. rewrite N2. cbv beta iota.
  rewrite run_daccept by exact Reach.
  rewrite (run_dhandshake _ _ (mkD true true false)); [| reflexivity | exact Tok].
  rewrite (run_pumpin _ _ ev PDone None); [| cbn; rewrite End; exact DR | discriminate].
  unfold finish_transfer. rewrite run_poll_none by reflexivity.
  rewrite (run_ddisconnect_tls true _ _ (mkD true true true)); [| reflexivity | reflexivity | exact Sok].
  rewrite (recv_reply _ _ (S f18) x3 []); [| reflexivity | cbn; rewrite !Hdp; reflexivity | exact X3].
  rewrite run_ret.
  eexists. split; [reflexivity|].
  split. { unfold insync, ready. cbn. rewrite Hs. auto. }
  split; [reflexivity|]. split; [reflexivity|].
  trace_facts. auto.
Qed.

Theorem upload_active_complete_tls w u path chunks r1 r2 rest x1 x2 x3 line :
  insync w (r1 :: r2 :: rest) -> w_data w = None ->
  c_mode (w_cfg w) = Active -> c_tls (w_cfg w) = true ->
  has_crlf path = false -> adv_cmd w = Some line ->
  simple_reaction r1 x1 -> is_negative x1 = false ->
  accepts_transfer r2 x2 x3 -> dp_reachable (r_data r2) = true ->
  dp_tls_ok (r_data r2) = true -> dp_shutdown_ok (r_data r2) = true ->
  exists w', step w (AUpload u path chunks None) = (OReturn (RvReplies [x1; x2; x3]), w') /\
    insync w' rest /\ w_data w' = None /\ w_cfg w' = w_cfg w /\
    net_out_bytes (io_events (skipn (length (w_trace w)) (w_trace w'))) = sent (c_type (w_cfg w)) chunks /\
    wire_events (skipn (length (w_trace w)) (w_trace w')) =
      [WLine line; WReply x1; WLine (upverb_bytes u ++ SP :: path); WReply x2; WReply x3] /\
    data_events (skipn (length (w_trace w)) (w_trace w')) =
      [DNewObj; DListen; DAcceptOk;
       DHandshake (if c_resume (w_cfg w) then Some (w_sess_id w) else None) true;
       DTlsShutdown true; DTcpShutdown; DClose; DAccClose].
Proof.
  intros ((Ho & Hs & Hpc & Hb) & Hp & Hc) Hd Hm Htls Hpath Hadv (R1n & R1c & R1a & R1x) N1
         (R2n & R2c & R2a & N2 & X2 & X3) Reach Tok Sok.
  destruct w as [cfg f2 f3 f4 f5 f6 f7 f8 f9 f10 f11 f12 f13 f14 f15 f16 f17 f18 f19 f20].
  destruct cfg as [cm crfc cty ctls cres].
  cbn in Ho, Hs, Hpc, Hb, Hp, Hc, Hd, Hm, Htls. subst.
  destruct r1 as [n1 oc1 dp1 ca1 tl1 d1]. destruct r2 as [n2 oc2 dp2 ca2 tl2 d2].
  cbn in R1n, R1c, R1a, Reach, R2n, R2c, R2a, Tok, Sok. subst.
  unfold adv_cmd in Hadv. cbn [w_cfg c_rfc2428] in Hadv.
  destruct (data_send cty block_size chunks None) as [[ev r] cb'] eqn:DS.
  pose proof (data_send_nocb _ _ _ _ _ _ DS) as ->.
  pose proof (upload_completes_without_callback _ _ _ _ _ _ DS) as ->.
  pose proof (upload_net_any_type _ _ _ _ DS) as NB.
  rewrite step_upload_unfold. unfold op_upload.
  rewrite run_checkarg, Hpath, run_scope.
  unfold create_data_connection. rewrite run_getcfg. flat.
  rewrite run_isopen. flat. rewrite run_dnew, run_dlisten.
  erewrite (xchg_adv (if crfc then AdvEprt else AdvPort) _ _ line _ _ x1);
    [| repeat split; auto | reflexivity | repeat split; auto | destruct crfc; exact Hadv].
  cbv beta. rewrite N1. cbv beta iota.
  erewrite (xchg (upverb_bytes u) (Some path) _ _ _ _ x2); [| repeat split; auto | reflexivity | repeat split; auto | exact Hpath].
  cbv beta. rewrite N2. cbv beta iota.
  rewrite run_daccept by exact Reach.
  rewrite (run_dhandshake _ _ (mkD true true false)); [| reflexivity | exact Tok].
  rewrite (run_pumpout _ _ ev PDone None); [| exact DS | discriminate].
  unfold finish_transfer. rewrite run_poll_none by reflexivity.
  rewrite (run_ddisconnect_tls true _ _ (mkD true true true)); [| reflexivity | reflexivity | exact Sok].
  rewrite (recv_reply _ _ (S f18) x3 []); [| reflexivity | cbn; rewrite !Hdp; reflexivity | exact X3].
  rewrite run_ret.
  eexists. split; [reflexivity|].
  split. { unfold insync, ready. cbn. rewrite Hs. auto. }
  split; [reflexivity|]. split; [reflexivity|].
  trace_facts. auto.
Qed.

Theorem list_active_complete_tls w path names r1 r2 rest x1 x2 x3 line :
  insync w (r1 :: r2 :: rest) -> w_data w = None ->
  c_mode (w_cfg w) = Active -> c_tls (w_cfg w) = true ->
  arg_ok path -> adv_cmd w = Some line ->
  simple_reaction r1 x1 -> is_negative x1 = false ->
  accepts_transfer r2 x2 x3 -> dp_reachable (r_data r2) = true -> dp_end (r_data r2) = DEof ->
  dp_tls_ok (r_data r2) = true -> dp_shutdown_ok (r_data r2) = true ->
  exists w', step w (AList path names) = (OReturn (RvList [x1; x2; x3] (delivered (c_type (w_cfg w)) (concat (dp_segs (r_data r2))))), w') /\
    insync w' rest /\ w_data w' = None /\ w_cfg w' = w_cfg w /\
    wire_events (skipn (length (w_trace w)) (w_trace w')) =
      [WLine line; WReply x1; WLine (line_of (if names then NLST_ else LIST_) path); WReply x2; WReply x3] /\
    data_events (skipn (length (w_trace w)) (w_trace w')) =
      [DNewObj; DListen; DAcceptOk;
       DHandshake (if c_resume (w_cfg w) then Some (w_sess_id w) else None) true;
       DTlsShutdown true; DTcpShutdown; DClose; DAccClose].
Proof.
  intros ((Ho & Hs & Hpc & Hb) & Hp & Hc) Hd Hm Htls Hpath Hadv (R1n & R1c & R1a & R1x) N1
         (R2n & R2c & R2a & N2 & X2 & X3) Reach End Tok Sok.
  destruct w as [cfg f2 f3 f4 f5 f6 f7 f8 f9 f10 f11 f12 f13 f14 f15 f16 f17 f18 f19 f20].
  destruct cfg as [cm crfc cty ctls cres].
  cbn in Ho, Hs, Hpc, Hb, Hp, Hc, Hd, Hm, Htls. subst.
  destruct r1 as [n1 oc1 dp1 ca1 tl1 d1]. destruct r2 as [n2 oc2 dp2 ca2 tl2 d2].
  cbn in R1n, R1c, R1a, Reach, R2n, R2c, R2a, End, Tok, Sok. subst.
  unfold adv_cmd in Hadv. cbn [w_cfg c_rfc2428] in Hadv.
  destruct (data_recv cty (mkSink None O) (dp_segs d2) DEof None) as [[ev r] cb'] eqn:DR.
  pose proof (download_completes_any_type _ _ _ _ _ _ (eq_refl : good_sink (mkSink None O)) DR) as ->.
  pose proof (download_sink_any_type _ _ _ _ _ (eq_refl : good_sink (mkSink None O)) DR) as SB.
  rewrite step_list_unfold. unfold op_list.
  assert (Hcheck : has_crlf (match path with Some p => p | None => [] end) = false).
  { destruct path as [p|]; [exact Hpath|reflexivity]. }
  rewrite run_checkarg, Hcheck, run_scope.
  unfold create_data_connection. rewrite run_getcfg. flat.
  rewrite run_isopen. flat. rewrite run_dnew, run_dlisten.
  erewrite (xchg_adv (if crfc then AdvEprt else AdvPort) _ _ line _ _ x1);
    [| repeat split; auto | reflexivity | repeat split; auto | destruct crfc; exact Hadv].
  cbv beta. rewrite N1. cbv beta iota.
  erewrite (xchg (if names then NLST_ else LIST_) path _ _ _ _ x2); [| repeat split; auto | reflexivity | repeat split; auto | exact Hpath].
  cbv beta. rewrite N2. cbv beta iota.
  rewrite run_daccept by exact Reach.
  rewrite (run_dhandshake _ _ (mkD true true false)); [| reflexivity | exact Tok].
  rewrite (run_pumpinlist _ _ ev PDone cb'); [| cbn; rewrite End; exact DR | discriminate].
  rewrite run_notify.
  rewrite (run_ddisconnect_tls true _ _ (mkD true true true)); [| reflexivity | reflexivity | exact Sok].
  rewrite (recv_reply _ _ (S f18) x3 []); [| reflexivity | cbn; rewrite !Hdp; reflexivity | exact X3].
  rewrite run_ret, SB.
  eexists. split; [reflexivity|].
  split. { unfold insync, ready. cbn. rewrite Hs. auto. }
  split; [reflexivity|]. split; [reflexivity|].
  trace_facts. auto.
Qed.
