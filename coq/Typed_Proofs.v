From LibFtp Require Import Bytes Decimal Decimal_Proofs Reply Typed.
Local Open Scope N_scope.

(* ---------- SIZE ---------- *)
Lemma skipn_nil_iff {A} n (l : list A) : skipn n l = [] <-> (length l <= n)%nat.
Proof.
  revert l; induction n as [|n IH]; intros [|x l]; cbn; split; intro H; try reflexivity;
    try discriminate; try lia.
  - apply IH in H. lia.
  - apply IH. lia.
Qed.

Theorem size_iff r n :
  parse_size r = Some n <->
  (code r = 213 /\
   let t := skipn 4 (text r) in
   t <> [] /\ all_digits t = true /\ dec_value t = n /\ n <= max64).
Proof.
  unfold parse_size, substr_from. destruct (code r =? 213) eqn:C; cbn [negb].
  2:{ apply N.eqb_neq in C. split; [discriminate|]. intros (H & _); congruence. }
  apply N.eqb_eq in C. destruct (Nat.ltb_spec (length (text r)) 5) as [L|L].
  - split; [discriminate|]. intros (_ & H & _). exfalso. apply H. apply skipn_nil_iff. lia.
  - rewrite try_parse_uint64_spec. cbv zeta. tauto.
Qed.

(* ---------- MDTM ---------- *)
Lemma firstn_add {A} a b (l : list A) : firstn (a + b) l = firstn a l ++ firstn b (skipn a l).
Proof.
  revert l; induction a as [|a IH]; intros l; [reflexivity|].
  destruct l as [|x l]; cbn; [destruct b; reflexivity|]. rewrite IH. reflexivity.
Qed.

Lemma skipn_skipn {A} a b (l : list A) : skipn a (skipn b l) = skipn (b + a) l.
Proof.
  revert l; induction b as [|b IH]; intro l; [reflexivity|].
  destruct l as [|x l]; cbn; [destruct a; reflexivity|]. apply IH.
Qed.

Lemma skipn_nth {A} n (l : list A) d : (n < length l)%nat -> skipn n l = nth n l d :: skipn (S n) l.
Proof.
  revert l; induction n as [|n IH]; intros [|x l] H; cbn in *; try lia; [reflexivity|].
  apply IH. lia.
Qed.

Lemma all_digits_app a b : all_digits (a ++ b) = all_digits a && all_digits b.
Proof. apply forallb_app. Qed.

Lemma two_digits s : length s = 2%nat -> all_digits s = true ->
  try_parse_uint8 s = Some (dec_value s).
Proof.
  intros L D. destruct s as [|a [|b [|c s]]]; try discriminate.
  apply try_parse_bounded_spec; [unfold max8, max64; lia|].
  cbn in D. rewrite !andb_true_iff in D. destruct D as (Da & Db & _).
  apply is_digit_range in Da, Db. repeat split; [discriminate| |].
  - cbn. rewrite !andb_true_iff. repeat split; apply is_digit_range; lia.
  - unfold dec_value, dec_from, max8; cbn [fold_left]. lia.
Qed.

Lemma four_digits s : length s = 4%nat -> all_digits s = true ->
  try_parse_uint16 s = Some (dec_value s).
Proof.
  intros L D. destruct s as [|a [|b [|c [|d [|e s]]]]]; try discriminate.
  apply try_parse_bounded_spec; [unfold max16, max64; lia|].
  cbn in D. rewrite !andb_true_iff in D. destruct D as (Da & Db & Dc & Dd & _).
  apply is_digit_range in Da, Db, Dc, Dd. repeat split; [discriminate| |].
  - cbn. rewrite !andb_true_iff. repeat split; apply is_digit_range; lia.
  - unfold dec_value, dec_from, max16; cbn [fold_left]. lia.
Qed.

Lemma parse_bounded_digits b s v : b <= max64 -> try_parse_bounded b s = Some v ->
  all_digits s = true /\ v = dec_value s /\ s <> [].
Proof. intros Hb H. apply try_parse_bounded_spec in H; [|exact Hb]. intuition. Qed.

(* the six calendar fields and the fraction, as the digits written *)
Definition fields_of (tv : bytes) : datetime :=
  mkDT (dec_value (substr tv 0 4)) (dec_value (substr tv 4 2)) (dec_value (substr tv 6 2))
       (dec_value (substr tv 8 2)) (dec_value (substr tv 10 2)) (dec_value (substr tv 12 2))
       (dec_value (skipn 15 tv)).

Lemma firstn_chain {A} a b p (l : list A) :
  firstn (a + b) (skipn p l) = firstn a (skipn p l) ++ firstn b (skipn (p + a) l).
Proof. rewrite firstn_add, skipn_skipn. reflexivity. Qed.

Lemma first14_split tv : (14 <= length tv)%nat ->
  firstn 14 tv = substr tv 0 4 ++ substr tv 4 2 ++ substr tv 6 2 ++ substr tv 8 2 ++
                 substr tv 10 2 ++ substr tv 12 2.
Proof.
  intro L. unfold substr.
  change (firstn 14 tv) with (firstn (4 + 10) (skipn 0 tv)).
  rewrite (firstn_chain 4 10 0). f_equal.
  change (firstn 10 (skipn (0 + 4) tv)) with (firstn (2 + 8) (skipn 4 tv)).
  rewrite (firstn_chain 2 8 4). f_equal.
  change (firstn 8 (skipn (4 + 2) tv)) with (firstn (2 + 6) (skipn 6 tv)).
  rewrite (firstn_chain 2 6 6). f_equal.
  change (firstn 6 (skipn (6 + 2) tv)) with (firstn (2 + 4) (skipn 8 tv)).
  rewrite (firstn_chain 2 4 8). f_equal.
  change (firstn 4 (skipn (8 + 2) tv)) with (firstn (2 + 2) (skipn 10 tv)).
  rewrite (firstn_chain 2 2 10). reflexivity.
Qed.

Lemma substr_len tv a b : (a + b <= length tv)%nat -> length (substr tv a b) = b.
Proof. intro L. unfold substr. rewrite firstn_length, skipn_length. lia. Qed.

Theorem mdtm_spec r dt :
  parse_datetime r = Some dt <->
  (code r = 213 /\
   let tv := skipn 4 (text r) in
   is_time_val tv = true /\ dec_value (skipn 15 tv) <= max32 /\ dt = fields_of tv).
Proof.
  unfold parse_datetime, parse_datetime_gen, substr_from.
  destruct (code r =? 213) eqn:C; cbn [negb].
  2:{ apply N.eqb_neq in C. split; [discriminate|]. intros (H & _); congruence. }
  apply N.eqb_eq in C. cbv zeta. set (tv := skipn 4 (text r)).
  assert (Ltv : length tv = (length (text r) - 4)%nat) by (unfold tv; apply skipn_length).
  unfold is_time_val.
  destruct (Nat.ltb_spec (length (text r)) 5) as [L5|L5].
  { split; [discriminate|]. intros (_ & H & _). exfalso.
    destruct (Nat.leb_spec 14 (length tv)); [lia|discriminate]. }
  destruct (Nat.ltb_spec (length tv) 14) as [L14|L14].
  { split; [discriminate|]. intros (_ & H & _). exfalso.
    destruct (Nat.leb_spec 14 (length tv)); [lia|discriminate]. }
  destruct (Nat.leb_spec 14 (length tv)) as [_|?]; [|lia]. cbn [andb].
  rewrite (first14_split tv L14), !all_digits_app.
  pose proof (substr_len tv 0 4 ltac:(lia)) as l0.
  pose proof (substr_len tv 4 2 ltac:(lia)) as l1.
  pose proof (substr_len tv 6 2 ltac:(lia)) as l2.
  pose proof (substr_len tv 8 2 ltac:(lia)) as l3.
  pose proof (substr_len tv 10 2 ltac:(lia)) as l4.
  pose proof (substr_len tv 12 2 ltac:(lia)) as l5.
  assert (B16 : max16 <= max64) by (unfold max16, max64; lia).
  assert (B8 : max8 <= max64) by (unfold max8, max64; lia).
  assert (B32 : max32 <= max64) by (unfold max32, max64; lia).
  split.
  - (* only well-formed time-vals produce a value, and the fields are the digits written *)
    destruct (try_parse_uint16 (substr tv 0 4)) as [y|] eqn:E0; [|discriminate].
    destruct (try_parse_uint8 (substr tv 4 2)) as [mo|] eqn:E1; [|discriminate].
    destruct (try_parse_uint8 (substr tv 6 2)) as [d|] eqn:E2; [|discriminate].
    destruct (try_parse_uint8 (substr tv 8 2)) as [h|] eqn:E3; [|discriminate].
    destruct (try_parse_uint8 (substr tv 10 2)) as [mi|] eqn:E4; [|discriminate].
    destruct (try_parse_uint8 (substr tv 12 2)) as [s|] eqn:E5; [|discriminate].
    apply (parse_bounded_digits _ _ _ B16) in E0 as (D0 & -> & _).
    apply (parse_bounded_digits _ _ _ B8) in E1 as (D1 & -> & _).
    apply (parse_bounded_digits _ _ _ B8) in E2 as (D2 & -> & _).
    apply (parse_bounded_digits _ _ _ B8) in E3 as (D3 & -> & _).
    apply (parse_bounded_digits _ _ _ B8) in E4 as (D4 & -> & _).
    apply (parse_bounded_digits _ _ _ B8) in E5 as (D5 & -> & _).
    rewrite D0, D1, D2, D3, D4, D5. cbn [andb].
    destruct (Nat.ltb_spec 14 (length tv)) as [G|G].
    + rewrite (skipn_nth 14 tv 0 G).
      destruct (nth 14 tv 0 =? DOT) eqn:Ed; cbn [negb]; [|discriminate].
      destruct (try_parse_uint32 (skipn 15 tv)) as [f|] eqn:E6; [|discriminate].
      intro H; inversion H; subst dt; clear H.
      apply try_parse_bounded_spec in E6 as (N6 & D6 & V6 & R6); [|exact B32].
      split; [exact C|]. split; [|split; [lia|]].
      * rewrite D6. destruct (skipn 15 tv); [congruence|reflexivity].
      * unfold fields_of. rewrite V6. reflexivity.
    + intro H; inversion H; subst dt; clear H.
      assert (S14 : skipn 14 tv = []) by (apply skipn_nil_iff; lia).
      assert (S15 : skipn 15 tv = []) by (apply skipn_nil_iff; lia).
      rewrite S14. split; [exact C|]. split; [reflexivity|]. split.
      * rewrite S15. unfold max32; cbn; lia.
      * unfold fields_of. rewrite S15. reflexivity.
  - (* every well-formed time-val whose fraction fits 32 bits yields a value *)
    intros (_ & W & F & ->).
    rewrite !andb_true_iff in W. destruct W as ((D0 & D1 & D2 & D3 & D4 & D5) & W).
    rewrite (four_digits _ l0 D0), (two_digits _ l1 D1), (two_digits _ l2 D2),
            (two_digits _ l3 D3), (two_digits _ l4 D4), (two_digits _ l5 D5).
    destruct (Nat.ltb_spec 14 (length tv)) as [G|G].
    + rewrite (skipn_nth 14 tv 0 G) in W.
      rewrite !andb_true_iff in W. destruct W as ((Wd & Wn) & Wf).
      rewrite Wd. cbn [negb].
      assert (try_parse_uint32 (skipn 15 tv) = Some (dec_value (skipn 15 tv))) as ->.
      { apply try_parse_bounded_spec; [exact B32|]. repeat split; auto.
        destruct (skipn 15 tv); [discriminate|discriminate]. }
      reflexivity.
    + assert (S15 : skipn 15 tv = []) by (apply skipn_nil_iff; lia).
      unfold fields_of. rewrite S15. reflexivity.
Qed.

(* the pinned code accepts texts that are not time-vals (finding F10) *)
Definition mdtm_witness : reply :=
  mkReply 213 [50;49;51;32; 50;48;50;52;48;49;48;49;49;50;48;48;48;48; 88; 53].  (* "213 20240101120000X5" *)

Theorem mdtm_refuted_on_pinned :
  exists r, parse_datetime_pinned r <> None /\ is_time_val (skipn 4 (text r)) = false.
Proof. exists mdtm_witness. split; [vm_compute; discriminate|vm_compute; reflexivity]. Qed.

(* ---------- listing lines ---------- *)
Lemma getlines_spec s : forall cur,
  getlines s cur (negb (match cur with [] => true | _ => false end)) =
  match pieces LF s with
  | p :: ps => drop_last_empty ((rev cur ++ p) :: ps)
  | [] => []
  end.
Proof.
  induction s as [|c s IH]; intro cur.
  - cbn. rewrite app_nil_r. destruct cur as [|x cur]; cbn; [reflexivity|].
    destruct (rev cur ++ [x]) eqn:R; [destruct (rev cur); discriminate|reflexivity].
  - cbn [getlines pieces]. destruct (c =? LF) eqn:E.
    + specialize (IH []). cbn [negb] in IH. rewrite IH. rewrite app_nil_r.
      destruct (pieces LF s) as [|p ps] eqn:P; [exfalso; eapply pieces_nonempty; eauto|].
      cbn [rev app]. cbn [drop_last_empty].
      destruct (rev cur) eqn:R; [|reflexivity].
      destruct ps; [|reflexivity]. destruct p; reflexivity.
    + specialize (IH (c :: cur)). cbn [negb] in IH. rewrite IH.
      destruct (pieces LF s) as [|p ps] eqn:P; [exfalso; eapply pieces_nonempty; eauto|].
      cbn [rev]. rewrite <- app_assoc. reflexivity.
Qed.

Theorem list_lines s : parse_file_list s = spec_file_list s.
Proof.
  unfold parse_file_list, spec_file_list. f_equal.
  pose proof (getlines_spec s []) as H. cbn [negb rev app] in H. rewrite H.
  destruct (pieces LF s) eqn:P; [exfalso; eapply pieces_nonempty; eauto|]. reflexivity.
Qed.
