(* Idle_Global.v - C13 over EVERY call but connect and disconnect, every state in which the client is not connected and every
   behaviour of the server: the call fails without touching anything - no command line is written, no reply is read, no data
   connection is opened, no byte is moved, neither stream nor callback is touched; observers are told of the request that
   could not be sent, a leftover data socket object is closed; and the client stays not connected. *)
From LibFtp Require Import Bytes Decimal Reply Endpoint DataConn Client Client_Proofs.
Local Open Scope N_scope.

Definition silent (e : event) : Prop :=
  match e with EObs _ _ | EData DClose | EData DAccClose => True | _ => False end.

Definition Q (w w' : world) : Prop :=
  exists es, w_trace w' = w_trace w ++ es /\ Forall silent es /\ w_open w' = w_open w.

Lemma Q_refl w : Q w w.
Proof. exists []. rewrite app_nil_r. repeat split. constructor. Qed.

Lemma Q_trans a b c : Q a b -> Q b c -> Q a c.
Proof.
  intros (t1 & E1 & F1 & O1) (t2 & E2 & F2 & O2). exists (t1 ++ t2). rewrite E2, E1, app_assoc. split; [reflexivity|].
  split; [apply Forall_app; split; assumption|congruence].
Qed.

Lemma s_obs obs e : Forall silent (map (fun o => EObs o e) obs).
Proof. induction obs as [|o obs IH]; cbn; constructor; [exact I|exact IH]. Qed.

Lemma Q_notify w e : Q w (notify w e).
Proof. exists (map (fun o => EObs o e) (w_obs w)). split; [reflexivity|]. split; [apply s_obs|reflexivity]. Qed.

Lemma do_send_closed w line : w_open w = false -> do_send w line = None.
Proof. intro C. unfold do_send. cbn [notify w_open emit set_trace]. rewrite C. reflexivity. Qed.

Lemma Q_close_data w : Q w (close_data w).
Proof.
  unfold close_data. destruct (w_data w) as [d|]; [|apply Q_refl].
  destruct (d_sock d), (d_acc d); cbv zeta.
  - exists [EData DClose; EData DAccClose]. split; [cbn [w_trace set_data emit set_trace release_pending set_queues]; rewrite <- app_assoc; reflexivity|].
    split; [repeat constructor|reflexivity].
  - exists [EData DClose]. split; [reflexivity|]. split; [repeat constructor|reflexivity].
  - exists [EData DAccClose]. split; [reflexivity|]. split; [repeat constructor|reflexivity].
  - exists []. split; [rewrite app_nil_r; reflexivity|]. split; [constructor|reflexivity].
Qed.

(* programs whose every path comes to a command line to write, a reply to read or a check that the connection is open before
   it does anything else *)
Fixpoint gq (p : prog) : Prop :=
  match p with
  | Ret _ | Throw => True
  | Send _ _ _ | SendRaw _ _ | SendAdv _ _ | Recv _ => True
  | CheckArg _ k | Scope k => gq k
  | GetCfg k => forall c, gq (k c)
  | IsOpen k => gq (k false)
  | _ => False
  end.

Lemma run_gq : forall p w, gq p -> w_open w = false -> Q w (snd (run p w)).
Proof.
  induction p as [v| |a k IH|verb arg k IH|line k IH|a k IH|k IH|e k IH|k IH|t k IH|k IH|k IH|h pt k IH|on k IH|k IH|k IH|k IH
                 |k IH|ip port k IH|k IH|k IH|k IH|g k IH|k IH|k IH|k IH|k IH|body IH]; intros w N C; cbn [run]; cbn [gq] in N;
    try (destruct N; fail).
  - apply Q_refl.
  - apply Q_refl.
  - destruct (has_crlf a); [apply Q_refl|apply IH; assumption].
  - destruct arg as [a|].
    + destruct (has_crlf a); [apply Q_refl|]. rewrite (do_send_closed _ _ C). cbn [snd]. apply Q_notify.
    + rewrite (do_send_closed _ _ C). cbn [snd]. apply Q_notify.
  - rewrite (do_send_closed _ _ C). cbn [snd]. apply Q_notify.
  - destruct (match a with AdvEprt => _ | AdvPort => _ end) as [line|]; [|apply Q_refl].
    rewrite (do_send_closed _ _ C). cbn [snd]. apply Q_notify.
  - rewrite C. cbn [negb]. apply Q_refl.
  - apply IH; [apply N|exact C].
  - rewrite C. apply IH; [exact N|exact C].
  - destruct (run body w) as [o w1] eqn:Rn. cbn [snd].
    pose proof (IH w N C) as X. rewrite Rn in X. cbn [snd] in X.
    eapply Q_trans; [exact X|]. eapply Q_trans; [apply Q_close_data|].
    exists []. split; [rewrite app_nil_r; reflexivity|]. split; [constructor|reflexivity].
Qed.

(* ------------------------------------------------------------------ the operations *)
Lemma gq_cdc verb arg acc k_ok k_none : gq (create_data_connection verb arg acc k_ok k_none).
Proof.
  unfold create_data_connection, process_command. cbn [gq]. intro c. destruct (c_mode c), (c_rfc2428 c); cbn [gq negb]; exact I.
Qed.

Definition keeps (a : api) : Prop := match a with AConnect _ _ _ | ADisconnect _ => False | _ => True end.

Theorem step_not_connected_touches_nothing a w : keeps a -> w_open w = false ->
  exists es, w_trace (snd (step w a)) = w_trace w ++ es /\ Forall silent es /\ w_open (snd (step w a)) = false.
Proof.
  intros KC C.
  assert (ST : forall p i, gq p -> exists es, w_trace (snd (run p (set_io w i))) = w_trace w ++ es /\ Forall silent es /\
                                            w_open (snd (run p (set_io w i))) = false).
  { intros p i N. destruct (run_gq p (set_io w i) N C) as (es & E & F & O). exists es. split; [exact E|]. split; [exact F|].
    rewrite O. exact C. }
  assert (Z : forall w', w_trace w' = w_trace w -> w_open w' = w_open w ->
              exists es, w_trace w' = w_trace w ++ es /\ Forall silent es /\ w_open w' = false).
  { intros w' E O. exists []. rewrite app_nil_r. split; [exact E|]. split; [constructor|rewrite O; exact C]. }
  destruct a as [h p l|u pw| |v arg|t|x y|path cb f|uv path ch cb|path names|g|o|o|md|b]; try (destruct KC; fail);
    unfold step; cbn [prog_of].
  - apply ST. unfold op_login, process_login. cbn [gq]. intro c. unfold process_command. exact I.
  - apply ST. unfold op_logout, process_command. exact I.
  - apply ST. unfold op_simple, process_command. cbn [gq]. destruct arg; exact I.
  - apply ST. unfold op_set_type, process_command. exact I.
  - apply ST. unfold op_rename, process_command. exact I.
  - apply ST. unfold op_download. cbn [gq]. apply gq_cdc.
  - apply ST. unfold op_upload. cbn [gq]. apply gq_cdc.
  - apply ST. unfold op_list. cbn [gq]. apply gq_cdc.
  - apply Z; reflexivity.
  - apply Z; reflexivity.
  - apply Z; reflexivity.
  - apply Z; reflexivity.
Qed.

(* non-vacuity: a client that was disconnected is asked for a download: the call throws, the observer (registered before)
   is told of the request, nothing else happens *)
Definition idle_script : list session :=
  let say c := mkR [RReply (mkReply c [])] [] false false true no_plan in
  [mkSess true false true (say 220) [say 221]].

Example idle_example :
  let w0 := init_world (mkConfig Passive true TBinary false false) idle_script in
  let w1 := snd (steps w0 [AAddObserver 7; AConnect [104] 21 None; ADisconnect true]) in
  let r := step w1 (ADownload [102] None None) in
  w_open w1 = false /\ fst r = OThrow /\
  skipn (length (w_trace w1)) (w_trace (snd r)) = [EObs 7 (ORequest [69;80;83;86])].
Proof. vm_compute. repeat split. Qed.
