From LibFtp Require Import Bytes Decimal Reply DataConn Client Client_Proofs Cmdline AppStrings Typed App.
Local Open Scope N_scope.

(* the verbs that need a connection *)
Definition needs_connection (c : command) : bool :=
  match c with
  | C_open | C_mode | C_active | C_passive | C_help | C_exit => false
  | _ => true
  end.

(* C20: a command that needs a connection, given while disconnected, answers "Connection is not open." and does
   nothing else: no library call, no prompt, no output, no change of the file system, for every argument list *)
Theorem offline_guard a c args : needs_connection c = true -> connected a = false ->
  handle a c args = (HCmdline m_not_open, a).
Proof.
  intros Hn Hc. destruct c; try discriminate; cbn [handle]; unfold net0, net1, netopt; rewrite Hc; reflexivity.
Qed.

(* the loop: every path ends with the success status - the only ways out are "exit", the end of the input, and
   the end of the input inside a prompt; cmdline_exception and ftp_exception are printed and the loop goes on *)
Theorem loop_exit fuel a : fst (run_app fuel a) = ExitSuccess \/ fst (run_app fuel a) = Hung.
Proof. destruct (run_app fuel a) as [[] ?]; auto. Qed.

(* the process hangs only inside a library call that blocks: without a blocking call every handler returns *)
Lemma lib_res_blocked r : fst (lib_res r) = HBlocked -> fst r = OBlocked.
Proof. destruct r as [[] ?]; cbn; congruence. Qed.

(* ... and with the fuel of run_main the loop is never cut short: it stops only when the input is used up or at
   exit (each iteration consumes at least one line) *)
Lemma read_line_consumes a p l a1 : read_line a p = (Some l, a1) -> (length (a_in a1) < length (a_in a))%nat /\ a_w a1 = a_w a /\ a_fs a1 = a_fs a.
Proof. unfold read_line. destruct (a_in a); intro H; inversion H; subst. cbn. auto. Qed.

(* get never overwrites or deletes a local file that already exists: the name is refused before any library call *)
Theorem get_refuses_existing_file a remote local content :
  connected a = true -> fs_get (a_fs a) local = Some content ->
  handle a C_get [remote; local] = (HCmdline (m_exists_pre ++ local ++ m_exists_post), a).
Proof. intros Hc Hf. cbn [handle]. rewrite Hc. cbn [negb]. rewrite Hf. reflexivity. Qed.

(* after a library error the handler has dropped the connection (non-gracefully): the client is disconnected and
   plain, so a following open starts a clean session (C13_fresh_session) *)
Theorem error_drops_connection a c a' :
  (w_tls_up (snd (step (a_w a) c)) = true -> w_ssl (snd (step (a_w a) c)) = true) ->
  lib a c = (OThrow, a') -> w_open (a_w a') = false /\ w_ssl (a_w a') = false.
Proof.
  intros Wf H. unfold lib in H. destruct (step (a_w a) c) as [o w1] eqn:S1. cbn [snd] in Wf.
  pose proof (disconnect_releases w1 Wf) as D.
  destruct (step w1 (ADisconnect false)) as [o2 w2]. destruct D as (A & B & _).
  destruct o; inversion H; subst. cbn. auto.
Qed.

(* ---- the file system ---- *)
Lemma fs_get_remove_other f n m : bytes_eqb m n = false -> fs_get (fs_remove f n) m = fs_get f m.
Proof.
  intro H. induction f as [|[k v] f IH]; [reflexivity|]. cbn [fs_remove fs_get].
  destruct (bytes_eqb k n) eqn:E.
  - rewrite IH. apply bytes_eqb_eq in E. subst k.
    destruct (bytes_eqb n m) eqn:E2; [|reflexivity]. apply bytes_eqb_eq in E2. subst. rewrite bytes_eqb_refl in H. discriminate.
  - cbn [fs_get]. rewrite IH. reflexivity.
Qed.

Lemma fs_get_put_other f n v m : bytes_eqb m n = false -> fs_get (fs_put f n v) m = fs_get f m.
Proof.
  intro H. unfold fs_put. cbn [fs_get].
  destruct (bytes_eqb n m) eqn:E.
  - apply bytes_eqb_eq in E. subst. rewrite bytes_eqb_refl in H. discriminate.
  - apply fs_get_remove_other. exact H.
Qed.

Lemma fs_get_remove_same f n : fs_get (fs_remove f n) n = None.
Proof.
  induction f as [|[k v] f IH]; [reflexivity|]. cbn [fs_remove].
  destruct (bytes_eqb k n) eqn:E; [exact IH|]. cbn [fs_get]. rewrite E. exact IH.
Qed.

Lemma lib_keeps_fs a c : a_fs (snd (lib a c)) = a_fs a.
Proof.
  unfold lib. destruct (step (a_w a) c) as [o w1]. destruct o; try reflexivity.
  destruct (step w1 (ADisconnect false)) as [o2 w2]. reflexivity.
Qed.

(* get touches no local file other than the one it creates; a file created by a refused (non-positive) download is
   gone afterwards *)
Theorem get_protects_files a remote local m : connected a = true -> bytes_eqb m local = false ->
  fs_get (a_fs (snd (handle a C_get [remote; local]))) m = fs_get (a_fs a) m.
Proof.
  intros Hc Hm. cbn [handle]. rewrite Hc. cbn [negb].
  destruct (fs_get (a_fs a) local); [reflexivity|].
  destruct (name_ok local); [|reflexivity]. cbn [negb].
  set (a2 := mkApp (a_w a) (fs_put (a_fs a) local []) (a_in a) (a_out a)).
  pose proof (lib_keeps_fs a2 (ADownload remote (Some []) None)) as K.
  destruct (lib a2 (ADownload remote (Some []) None)) as [o a3]. cbn [snd] in K.
  destruct o; cbn [snd a_fs]; try (destruct (replies_positive _); cbn [snd a_fs]);
    rewrite ?fs_get_remove_other, ?fs_get_put_other, ?K by exact Hm; unfold a2; cbn [a_fs];
    rewrite ?fs_get_put_other by exact Hm; reflexivity.
Qed.

Theorem get_removes_file_of_refused_download a remote local :
  connected a = true -> fs_get (a_fs a) local = None -> name_ok local = true ->
  let '(o, a3) := lib (mkApp (a_w a) (fs_put (a_fs a) local []) (a_in a) (a_out a)) (ADownload remote (Some []) None) in
  o <> OThrow -> o <> OBlocked -> replies_positive o = false ->
  fs_get (a_fs (snd (handle a C_get [remote; local]))) local = None.
Proof.
  intros Hc Hf Hn. cbn [handle]. rewrite Hc, Hf, Hn. cbn [negb].
  destruct (lib _ (ADownload remote (Some []) None)) as [o a3]. intros Ho Hb Hp.
  destruct o; try congruence; rewrite Hp; cbn [snd a_fs]; apply fs_get_remove_same.
Qed.
