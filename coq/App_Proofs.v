From LibFtp Require Import Bytes Decimal Reply Endpoint DataConn Client Client_Proofs Login_Proofs Transfer_Proofs Transfer_More Cmdline AppStrings Typed App.
Local Open Scope N_scope.

(* the verbs that need a connection *)
Definition needs_connection (c : command) : bool :=
  match c with
  | C_open | C_mode | C_active | C_passive | C_help | C_exit => false
  | _ => true
  end.

(* C20: a command that needs a connection, given while disconnected, answers "Connection is not open." and does
   nothing else: no library call, no prompt, no output, no change of the file system, for every argument list *)
Theorem offline_guard a c args : needs_connection c = true -> connected a = false ->
  handle a c args = (HCmdline m_not_open, a).
Proof.
  intros Hn Hc. destruct c; try discriminate; cbn [handle]; unfold net0, net1, netopt; rewrite Hc; reflexivity.
Qed.

(* the loop: every path ends with the success status - the only ways out are "exit", the end of the input, and
   the end of the input inside a prompt; cmdline_exception and ftp_exception are printed and the loop goes on *)
Theorem loop_exit fuel a : fst (run_app fuel a) = ExitSuccess \/ fst (run_app fuel a) = Hung.
Proof. destruct (run_app fuel a) as [[] ?]; auto. Qed.

(* the process hangs only inside a library call that blocks: without a blocking call every handler returns *)
Lemma lib_res_blocked r : fst (lib_res r) = HBlocked -> fst r = OBlocked.
Proof. destruct r as [[] ?]; cbn; congruence. Qed.

(* ... and with the fuel of run_main the loop is never cut short: it stops only when the input is used up or at
   exit (each iteration consumes at least one line) *)
Lemma read_line_consumes a p l a1 : read_line a p = (Some l, a1) -> (length (a_in a1) < length (a_in a))%nat /\ a_w a1 = a_w a /\ a_fs a1 = a_fs a.
Proof. unfold read_line. destruct (a_in a); intro H; inversion H; subst. cbn. auto. Qed.

(* get never overwrites or deletes a local file that already exists: the name is refused before any library call *)
Theorem get_refuses_existing_file a remote local content :
  connected a = true -> fs_get (a_fs a) local = Some content ->
  handle a C_get [remote; local] = (HCmdline (m_exists_pre ++ local ++ m_exists_post), a).
Proof. intros Hc Hf. cbn [handle]. rewrite Hc. cbn [negb]. rewrite Hf. reflexivity. Qed.

(* after a library error the handler has dropped the connection (non-gracefully): the client is disconnected and
   plain, so a following open starts a clean session (C13_fresh_session) *)
Theorem error_drops_connection a c a' :
  (w_tls_up (snd (step (a_w a) c)) = true -> w_ssl (snd (step (a_w a) c)) = true) ->
  lib a c = (OThrow, a') -> w_open (a_w a') = false /\ w_ssl (a_w a') = false.
Proof.
  intros Wf H. unfold lib in H. destruct (step (a_w a) c) as [o w1] eqn:S1. cbn [snd] in Wf.
  pose proof (disconnect_releases w1 Wf) as D.
  destruct (step w1 (ADisconnect false)) as [o2 w2]. destruct D as (A & B & _).
  destruct o; inversion H; subst. cbn. auto.
Qed.

(* ---- the file system ---- *)
Lemma fs_get_remove_other f n m : bytes_eqb m n = false -> fs_get (fs_remove f n) m = fs_get f m.
Proof.
  intro H. induction f as [|[k v] f IH]; [reflexivity|]. cbn [fs_remove fs_get].
  destruct (bytes_eqb k n) eqn:E.
  - rewrite IH. apply bytes_eqb_eq in E. subst k.
    destruct (bytes_eqb n m) eqn:E2; [|reflexivity]. apply bytes_eqb_eq in E2. subst. rewrite bytes_eqb_refl in H. discriminate.
  - cbn [fs_get]. rewrite IH. reflexivity.
Qed.

Lemma fs_get_put_other f n v m : bytes_eqb m n = false -> fs_get (fs_put f n v) m = fs_get f m.
Proof.
  intro H. unfold fs_put. cbn [fs_get].
  destruct (bytes_eqb n m) eqn:E.
  - apply bytes_eqb_eq in E. subst. rewrite bytes_eqb_refl in H. discriminate.
  - apply fs_get_remove_other. exact H.
Qed.

Lemma fs_get_remove_same f n : fs_get (fs_remove f n) n = None.
Proof.
  induction f as [|[k v] f IH]; [reflexivity|]. cbn [fs_remove].
  destruct (bytes_eqb k n) eqn:E; [exact IH|]. cbn [fs_get]. rewrite E. exact IH.
Qed.

Lemma lib_keeps_fs a c : a_fs (snd (lib a c)) = a_fs a.
Proof.
  unfold lib. destruct (step (a_w a) c) as [o w1]. destruct o; try reflexivity.
  destruct (step w1 (ADisconnect false)) as [o2 w2]. reflexivity.
Qed.

(* get touches no local file other than the one it creates; a file created by a refused (non-positive) download is
   gone afterwards *)
Theorem get_protects_files a remote local m : connected a = true -> bytes_eqb m local = false ->
  fs_get (a_fs (snd (handle a C_get [remote; local]))) m = fs_get (a_fs a) m.
Proof.
  intros Hc Hm. cbn [handle]. rewrite Hc. cbn [negb].
  destruct (fs_get (a_fs a) local); [reflexivity|].
  destruct (name_ok local); [|reflexivity]. cbn [negb].
  set (a2 := mkApp (a_w a) (fs_put (a_fs a) local []) (a_in a) (a_out a)).
  pose proof (lib_keeps_fs a2 (ADownload remote (Some []) None)) as K.
  destruct (lib a2 (ADownload remote (Some []) None)) as [o a3]. cbn [snd] in K.
  destruct o; cbn [snd a_fs]; try (destruct (replies_positive _); cbn [snd a_fs]);
    rewrite ?fs_get_remove_other, ?fs_get_put_other, ?K by exact Hm; unfold a2; cbn [a_fs];
    rewrite ?fs_get_put_other by exact Hm; reflexivity.
Qed.

Theorem get_removes_file_of_refused_download a remote local :
  connected a = true -> fs_get (a_fs a) local = None -> name_ok local = true ->
  let '(o, a3) := lib (mkApp (a_w a) (fs_put (a_fs a) local []) (a_in a) (a_out a)) (ADownload remote (Some []) None) in
  o <> OThrow -> o <> OBlocked -> replies_positive o = false ->
  fs_get (a_fs (snd (handle a C_get [remote; local]))) local = None.
Proof.
  intros Hc Hf Hn. cbn [handle]. rewrite Hc, Hf, Hn. cbn [negb].
  destruct (lib _ (ADownload remote (Some []) None)) as [o a3]. intros Ho Hb Hp.
  destruct o; try congruence; rewrite Hp; cbn [snd a_fs]; apply fs_get_remove_same.
Qed.

(* ---- only get touches local files ---- *)
Lemma read_line_fs a p : a_fs (snd (read_line a p)) = a_fs a.
Proof. unfold read_line. destruct (a_in a); reflexivity. Qed.

Lemma lib_res_fs r : a_fs (snd (lib_res r)) = a_fs (snd r).
Proof. destruct r as [[] ?]; reflexivity. Qed.

Lemma net0_fs a c : a_fs (snd (net0 a c)) = a_fs a.
Proof. unfold net0. destruct (connected a); cbn [negb]; [|reflexivity]. rewrite lib_res_fs. apply lib_keeps_fs. Qed.

Lemma net1_fs a args p u mk : a_fs (snd (net1 a args p u mk)) = a_fs a.
Proof.
  unfold net1. destruct (connected a); cbn [negb]; [|reflexivity].
  destruct args as [|x [|y r]]; try reflexivity.
  - pose proof (read_line_fs a p) as R. destruct (read_line a p) as [[l|] a1]; cbn [snd] in *; [|exact R].
    rewrite lib_res_fs, lib_keeps_fs. exact R.
  - rewrite lib_res_fs. apply lib_keeps_fs.
Qed.

Lemma netopt_fs a args u mk : a_fs (snd (netopt a args u mk)) = a_fs a.
Proof.
  unfold netopt. destruct (connected a); cbn [negb]; [|reflexivity].
  destruct args as [|x [|y r]]; try reflexivity; rewrite lib_res_fs; apply lib_keeps_fs.
Qed.

Lemma login_prompted_fs a u : a_fs (snd (login_prompted a u)) = a_fs a.
Proof.
  unfold login_prompted. destruct u as [u|].
  - pose proof (read_line_fs a p_password) as R. destruct (read_line a p_password) as [[pw|] a2]; cbn [snd] in *; [|exact R].
    rewrite lib_res_fs, lib_keeps_fs. exact R.
  - pose proof (read_line_fs a p_username) as R. destruct (read_line a p_username) as [[u|] a1]; cbn [snd] in *; [|exact R].
    pose proof (read_line_fs a1 p_password) as R2. destruct (read_line a1 p_password) as [[pw|] a2]; cbn [snd] in *; [|congruence].
    rewrite lib_res_fs, lib_keeps_fs. congruence.
Qed.

(* C20: get is the only verb that touches the local file system: every other command, with any arguments, against any
   server, leaves every local file exactly as it was *)
Theorem only_get_touches_files a c args : c <> C_get -> a_fs (snd (handle a c args)) = a_fs a.
Proof.
  intro N. destruct c; try congruence; cbn [handle];
    try apply net0_fs; try apply net1_fs; try apply netopt_fs; try reflexivity.
  - (* open *)
    destruct (connected a); [reflexivity|].
    assert (G : forall host port a1, a_fs a1 = a_fs a ->
      a_fs (snd (match lib a1 (AConnect host port None) with
                 | (OThrow, a2) => (HFtp, a2)
                 | (OBlocked, a2) => (HBlocked, a2)
                 | (o, a2) => if replies_positive o then login_prompted a2 None else (HOk, a2)
                 end)) = a_fs a).
    { intros host port a1 E. pose proof (lib_keeps_fs a1 (AConnect host port None)) as K.
      destruct (lib a1 (AConnect host port None)) as [o a2]. cbn [snd] in K.
      destruct o; cbn [snd]; try congruence.
      destruct (replies_positive _); [rewrite login_prompted_fs|cbn [snd]]; congruence. }
    destruct args as [|h [|p [|z r]]]; try reflexivity.
    + pose proof (read_line_fs a p_hostname) as R. destruct (read_line a p_hostname) as [[hh|] a1]; cbn [snd] in *; [|exact R].
      apply G. exact R.
    + apply G. reflexivity.
    + destruct (try_parse_uint16 p); [apply G; reflexivity|reflexivity].
  - (* user *)
    destruct (connected a); cbn [negb]; [|reflexivity].
    destruct args as [|u [|z r]]; try reflexivity; apply login_prompted_fs.
  - (* put *)
    destruct (connected a); cbn [negb]; [|reflexivity].
    assert (G : forall l r a1, a_fs a1 = a_fs a ->
      a_fs (snd (match fs_get (a_fs a1) l with
                 | None => (HCmdline (m_open_pre ++ l ++ m_quote_dot), a1)
                 | Some content => lib_res (lib a1 (AUpload UStor r (blocks_of (S (length content)) block_size content) (Some [])))
                 end)) = a_fs a).
    { intros l r a1 E. destruct (fs_get (a_fs a1) l); [|exact E]. rewrite lib_res_fs, lib_keeps_fs. exact E. }
    destruct args as [|l [|r [|z t]]]; try reflexivity.
    + pose proof (read_line_fs a p_local_file) as R. destruct (read_line a p_local_file) as [[l|] a1]; cbn [snd] in *; [|exact R].
      apply G. exact R.
    + apply G. reflexivity.
    + apply G. reflexivity.
  - (* rename *)
    destruct (connected a); cbn [negb]; [|reflexivity].
    destruct args as [|x [|y [|z r]]]; try reflexivity. rewrite lib_res_fs. apply lib_keeps_fs.
  - (* type *)
    destruct (connected a); reflexivity.
  - (* size *)
    destruct (connected a); cbn [negb]; [|reflexivity].
    assert (G : forall x a1, a_fs a1 = a_fs a ->
      a_fs (snd (match lib a1 (ASimple v_SIZE (Some x)) with
                 | (OThrow, a2) => (HFtp, a2)
                 | (OBlocked, a2) => (HBlocked, a2)
                 | (OReturn (RvReply r), a2) => match parse_size r with Some n => (HOk, say a2 [OLine (to_string n ++ m_bytes)]) | None => (HOk, a2) end
                 | (_, a2) => (HOk, a2)
                 end)) = a_fs a).
    { intros x a1 E. pose proof (lib_keeps_fs a1 (ASimple v_SIZE (Some x))) as K.
      destruct (lib a1 (ASimple v_SIZE (Some x))) as [o a2]. cbn [snd] in K.
      destruct o as [v| |]; cbn [snd]; try congruence.
      destruct v; cbn [snd]; try congruence. destruct (parse_size r); cbn [snd say a_fs]; congruence. }
    destruct args as [|x [|y r]]; try reflexivity.
    + pose proof (read_line_fs a p_remote_file) as R. destruct (read_line a p_remote_file) as [[x|] a1]; cbn [snd] in *; [|exact R].
      apply G. exact R.
    + apply G. reflexivity.
  - (* exit *)
    destruct (connected a); [|reflexivity].
    destruct (step (a_w a) (ADisconnect true)) as [o w1]. reflexivity.
Qed.

(* C20: after any library error the handler has dropped the connection, so that a following open starts a clean
   session: the connect that follows reads exactly the new server's greeting and is in step with that server's script,
   plain, nothing buffered - whatever state the failed call had left behind *)
Theorem open_after_error_is_clean a c a' h p s srest g :
  (w_tls_up (snd (step (a_w a) c)) = true -> w_ssl (snd (step (a_w a) c)) = true) ->
  lib a c = (OThrow, a') ->
  w_script (a_w a') = s :: srest -> s_reachable s = true -> c_tls (w_cfg (a_w a')) = false ->
  r_now (s_greeting s) = [RReply g] -> r_close_after (s_greeting s) = false -> code g <> 421 -> code g <> 120 ->
  exists a'', lib a' (AConnect h p None) = (OReturn (RvReplies [g]), a'') /\
    insync (a_w a'') (s_reactions s) /\ w_ssl (a_w a'') = false /\ a_fs a'' = a_fs a'.
Proof.
  intros Wf L Hscr Hre Htls Gn Gc G421 G120.
  destruct (error_drops_connection a c a' Wf L) as (Ho & _).
  destruct (connect_plain (a_w a') h p s srest g Ho Hscr Hre Htls Gn Gc G421 G120) as (w' & St & Is & _ & Sl & _).
  unfold lib. rewrite St. eexists. split; [reflexivity|]. cbn [a_w a_fs say with_w]. auto.
Qed.

(* a script of non-empty lines, each a connection-needing command (any spelling, any arguments) *)
Definition offline_line (l : bytes) : Prop :=
  l <> [] /\ exists c args, parse_command l = Some (c, args) /\ needs_connection c = true.

Fixpoint offline_output (n : nat) : list out_item :=
  match n with O => [] | S k => OPrompt p_main :: OLine m_not_open :: offline_output k end.

(* C20: a whole script of such lines given while disconnected: every line is answered "Connection is not open.", the
   session state (hence the network: no library call is ever made) and the local files are untouched, and the run ends
   at the end of the input with the success status *)
Theorem offline_script : forall lines w files out0,
  w_open w = false -> Forall offline_line lines ->
  let a := mkApp w files lines out0 in
  run_main a = (ExitSuccess, mkApp w files [] (out0 ++ offline_output (length lines) ++ [OPrompt p_main])).
Proof.
  intros lines w files out0 Ho Hl. cbv zeta. unfold run_main. cbn [a_in].
  assert (G : forall fuel lines out0, Forall offline_line lines -> (length lines < fuel)%nat ->
            run_app fuel (mkApp w files lines out0) =
            (ExitSuccess, mkApp w files [] (out0 ++ offline_output (length lines) ++ [OPrompt p_main]))).
  { clear Hl lines out0. induction fuel as [|fuel IH]; intros lines out0 Hl Hf; [inversion Hf|].
    destruct lines as [|l lines].
    - cbn. reflexivity.
    - inversion Hl as [|? ? (Hne & c & args & Hp & Hn) Hl']; subst.
      cbn [run_app read_line a_in]. cbn [a_w a_fs a_out].
      destruct l as [|b l']; [congruence|].
      rewrite Hp.
      rewrite (offline_guard _ c args Hn); [|exact Ho].
      unfold say. cbn [a_w a_fs a_in a_out].
      rewrite IH; [|exact Hl'|cbn in Hf; apply Nat.succ_lt_mono; exact Hf].
      cbn [length offline_output]. rewrite <- !app_assoc. reflexivity. }
  apply G; [exact Hl|apply Nat.lt_succ_diag_r].
Qed.
