(* Ascii.v - model of ftp::detail::ascii_istream (src/ascii_istream.cpp:40-109, upload direction)
   and ftp::detail::ascii_ostream (src/ascii_ostream.cpp:37-79, download direction). *)
From LibFtp Require Export Bytes.
Local Open Scope N_scope.

(* ------------------------------------------------------------------ upload: ascii_istream *)
(* what one source byte contributes, and the new skip_linefeed_ *)
Definition emit (skip : bool) (ch : N) : bytes * bool :=
  if ch =? CR then ([CR; LF], true)
  else if ch =? LF then (if skip then [] else [CR; LF], false)
  else ([ch], false).

(* inner loop of read over the unread part of internal_: [room] = size - pos >= 1.
   result: bytes put into the caller's buffer, skip_linefeed_, need_linefeed_, unread rest of
   internal_, room left *)
Fixpoint inner (room : nat) (skip : bool) (internal : bytes) : bytes * bool * bool * bytes * nat :=
  match internal with
  | [] => ([], skip, false, [], room)
  | ch :: rest =>
      let '(e, skip') := emit skip ch in
      if Nat.leb (length e) room then
        let room' := (room - length e)%nat in
        match room' with
        | O => (e, skip', false, rest, O)
        | S _ => let '(o, s, n, r, rm) := inner room' skip' rest in (e ++ o, s, n, r, rm)
        end
      else (* only for e = CR LF with room = 1: the LF is owed *)
        (firstn room e, skip', true, rest, O)
  end.

(* outer loop: refill internal_ from the source; the source is given as the sequence of non-empty
   chunks its successive read calls return (the short-read pattern and the internal buffer size
   decide the chunking); no chunk left = the source returns 0 *)
Fixpoint outer (room : nat) (skip : bool) (chunks : list bytes) : bytes * bool * bool * bytes * list bytes :=
  match chunks with
  | [] => ([], skip, false, [], [])
  | c :: cs =>
      let '(o, s, n, r, rm) := inner room skip c in
      match rm with
      | O => (o, s, n, r, cs)
      | S _ => let '(o2, s2, n2, r2, cs2) := outer rm s cs in (o ++ o2, s2, n2, r2, cs2)
      end
  end.

Record istate := mkI { need_lf : bool; skip_lf : bool; internal : bytes; chunks : list bytes }.

Definition istart (chunks : list bytes) : istate := mkI false false [] chunks.

(* ascii_istream::read(buf, size) *)
Definition aread (size : nat) (st : istate) : bytes * istate :=
  match size with
  | O => ([], st)
  | S _ =>
      let pre := if need_lf st then [LF] else [] in
      let room1 := (size - length pre)%nat in
      match room1 with
      | O => (pre, mkI false (skip_lf st) (internal st) (chunks st))
      | S _ =>
          let '(o, s, n, r, rm) := inner room1 (skip_lf st) (internal st) in
          match rm with
          | O => (pre ++ o, mkI n s r (chunks st))
          | S _ =>
              let '(o2, s2, n2, r2, cs2) := outer rm s (chunks st) in
              (pre ++ o ++ o2, mkI n2 s2 r2 cs2)
          end
      end
  end.

(* the loop of data_connection::send over the converter: read with the given caller sizes until a
   read returns nothing; the flag says whether that happened before the sizes ran out *)
Fixpoint drain (sizes : list nat) (st : istate) : list bytes * bool * istate :=
  match sizes with
  | [] => ([], false, st)
  | n :: ns =>
      let '(o, st') := aread n st in
      match o with
      | [] => ([], true, st')
      | _ => let '(os, stopped, st'') := drain ns st' in (o :: os, stopped, st'')
      end
  end.

(* ------------------------------------------------------------------ download: ascii_ostream *)
(* ascii_ostream::write over one block: bytes handed to the sink, new prev_cr_ *)
Fixpoint owrite (prev_cr : bool) (buf : bytes) : bytes * bool :=
  match buf with
  | [] => ([], prev_cr)
  | ch :: rest =>
      if ch =? CR then
        if prev_cr then let '(o, p) := owrite true rest in (CR :: o, p)
        else owrite true rest
      else if ch =? LF then let '(o, p) := owrite false rest in (LF :: o, p)
      else let '(o, p) := owrite false rest in ((if prev_cr then [CR; ch] else [ch]) ++ o, p)
  end.

Inductive sink_event := SinkWrite (b : bytes) | SinkFlush.

(* a sequence of write calls followed by flush *)
Fixpoint owrites (prev_cr : bool) (blocks : list bytes) : list sink_event :=
  match blocks with
  | [] => (if prev_cr then [SinkWrite [CR]] else []) ++ [SinkFlush]
  | b :: bs => let '(o, p) := owrite prev_cr b in SinkWrite o :: owrites p bs
  end.

Fixpoint sink_content (l : list sink_event) : bytes :=
  match l with
  | [] => []
  | SinkWrite b :: l' => b ++ sink_content l'
  | SinkFlush :: l' => sink_content l'
  end.

(* ------------------------------------------------------------------ specifications *)
(* upload: every CR LF pair, every lone CR and every lone LF becomes CR LF *)
Fixpoint to_crlf (s : bytes) : bytes :=
  match s with
  | [] => []
  | c :: s' =>
      if c =? CR then
        CR :: LF :: match s' with
                    | l :: s'' => if l =? LF then to_crlf s'' else to_crlf s'
                    | [] => []
                    end
      else if c =? LF then CR :: LF :: to_crlf s'
      else c :: to_crlf s'
  end.

(* download: every CR LF pair becomes LF, everything else (lone CR included) is unchanged *)
Fixpoint from_crlf (s : bytes) : bytes :=
  match s with
  | [] => []
  | c :: s' =>
      if c =? CR then
        match s' with
        | l :: s'' => if l =? LF then LF :: from_crlf s'' else CR :: from_crlf s'
        | [] => [CR]
        end
      else c :: from_crlf s'
  end.
