From LibFtp Require Import Bytes Ascii.
Local Open Scope N_scope.

(* ------------------------------------------------------------------ upload *)
(* the per-byte automaton: what the converter produces for a stream, whatever the chunking *)
Fixpoint auto (skip : bool) (s : bytes) : bytes :=
  match s with
  | [] => []
  | ch :: s' => fst (emit skip ch) ++ auto (snd (emit skip ch)) s'
  end.

Ltac split3 := split; [|split].
Ltac split4 := split; [|split; [|split]].

Definition owed (n : bool) : bytes := if n then [LF] else [].

Definition pending (st : istate) : bytes :=
  owed (need_lf st) ++ auto (skip_lf st) (internal st ++ concat (chunks st)).

Lemma emit_cases skip ch :
  fst (emit skip ch) = [] \/ (exists c, fst (emit skip ch) = [c]) \/ fst (emit skip ch) = [CR; LF].
Proof.
  unfold emit. destruct (ch =? CR); [auto|]. destruct (ch =? LF); [destruct skip; auto|].
  right; left; eexists; reflexivity.
Qed.

Lemma inner_spec : forall internal room skip o s n r rm tail,
  (1 <= room)%nat -> inner room skip internal = (o, s, n, r, rm) ->
  auto skip (internal ++ tail) = o ++ owed n ++ auto s (r ++ tail) /\
  (length o + rm = room)%nat /\ (rm <> O -> r = [] /\ n = false).
Proof.
  induction internal as [|ch rest IH]; intros room skip o s n r rm tail Hr H.
  - cbn in H. inversion H; subst. cbn. split3; auto.
  - cbn [inner] in H. cbn [app auto].
    destruct (emit skip ch) as [e sk] eqn:E. cbn [fst snd].
    pose proof (emit_cases skip ch) as C. rewrite E in C. cbn [fst] in C.
    destruct (Nat.leb_spec (length e) room) as [L|L].
    + destruct (room - length e)%nat as [|k] eqn:K.
      * inversion H; subst. cbn [owed app]. split3; auto; try lia.
      * destruct (inner (S k) sk rest) as [[[[o1 s1] n1] r1] rm1] eqn:I.
        inversion H; subst. destruct (IH (S k) sk o1 s n r rm tail ltac:(lia) I) as (A & B & C').
        rewrite A, <- app_assoc. split3; auto. rewrite app_length. lia.
    + inversion H; subst. destruct C as [C|[(c & C)|C]]; rewrite C in *; cbn in L; try lia.
      assert (room = 1%nat) by lia. subst room. cbn. split3; auto. intros; congruence.
Qed.

Lemma outer_spec : forall cks room skip o s n r cs,
  (1 <= room)%nat -> outer room skip cks = (o, s, n, r, cs) ->
  auto skip (concat cks) = o ++ owed n ++ auto s (r ++ concat cs) /\
  (length o <= room)%nat /\ (length o < room -> r = [] /\ cs = [] /\ n = false)%nat.
Proof.
  induction cks as [|c cks IH]; intros room skip o s n r cs Hr H.
  - cbn in H. inversion H; subst. cbn. split3; auto; lia.
  - cbn [outer] in H. cbn [concat].
    destruct (inner room skip c) as [[[[o1 s1] n1] r1] rm1] eqn:I.
    destruct (inner_spec c room skip o1 s1 n1 r1 rm1 (concat cks) Hr I) as (A & B & C).
    destruct rm1 as [|k].
    + inversion H; subst. rewrite A. split3; auto; lia.
    + destruct (outer (S k) s1 cks) as [[[[o2 s2] n2] r2] cs2] eqn:O.
      inversion H; subst. destruct (C ltac:(lia)) as (-> & ->).
      destruct (IH (S k) s1 o2 s n r cs ltac:(lia) O) as (A2 & B2 & C2).
      rewrite A. cbn [owed app]. rewrite A2, <- app_assoc. split3; auto.
      * rewrite app_length. lia.
      * rewrite app_length. intro. apply C2. lia.
Qed.

Lemma aread_spec size st o st' : (1 <= size)%nat -> aread size st = (o, st') ->
  pending st = o ++ pending st' /\ (length o <= size)%nat /\ (o = [] -> pending st = []).
Proof.
  intros Hs H. unfold aread in H. destruct size as [|sz]; [lia|].
  unfold pending. destruct st as [need skip int cks]. cbn [need_lf skip_lf internal chunks] in *.
  set (pre := if need then [LF] else []) in *.
  assert (Lp : (length pre <= 1)%nat) by (destruct need; cbn; lia).
  assert (Ep : owed need = pre) by reflexivity. rewrite Ep.
  destruct (S sz - length pre)%nat as [|k] eqn:K.
  - inversion H; subst. cbn [need_lf skip_lf internal chunks owed app].
    destruct need; cbn in *; [|lia]. split3; auto; try lia. discriminate.
  - destruct (inner (S k) skip int) as [[[[o1 s1] n1] r1] rm1] eqn:I.
    destruct (inner_spec int (S k) skip o1 s1 n1 r1 rm1 (concat cks) ltac:(lia) I) as (A & B & C).
    destruct rm1 as [|j].
    + inversion H; subst. cbn [need_lf skip_lf internal chunks]. rewrite A, <- !app_assoc.
      split3; auto.
      * rewrite app_length. lia.
      * intro Z. apply app_eq_nil in Z as (Z1 & Z2). subst. cbn in B. lia.
    + destruct (outer (S j) s1 cks) as [[[[o2 s2] n2] r2] cs2] eqn:O.
      inversion H; subst. cbn [need_lf skip_lf internal chunks].
      destruct (C ltac:(lia)) as (-> & ->).
      destruct (outer_spec cks (S j) s1 o2 s2 n2 r2 cs2 ltac:(lia) O) as (A2 & B2 & C2).
      rewrite A. cbn [owed app]. rewrite A2, <- !app_assoc. split3; auto.
      * rewrite !app_length. lia.
      * intro Z. apply app_eq_nil in Z as (Z1 & Z2). apply app_eq_nil in Z2 as (Z2 & Z3). subst.
        cbn in B. destruct (C2 ltac:(cbn; lia)) as (-> & -> & ->). rewrite Z1. reflexivity.
Qed.

Lemma drain_spec : forall sizes st os stopped st',
  Forall (fun n => 1 <= n)%nat sizes -> drain sizes st = (os, stopped, st') ->
  pending st = concat os ++ pending st' /\
  (stopped = true -> pending st' = []) /\
  (stopped = false -> length os = length sizes) /\
  Forall2 (fun o n => o <> [] /\ (length o <= n)%nat) os (firstn (length os) sizes).
Proof.
  induction sizes as [|n ns IH]; intros st os stopped st' Hs H.
  - cbn in H. inversion H; subst. cbn. split4; auto. discriminate.
  - cbn [drain] in H. inversion Hs as [|? ? Hn Hns]; subst.
    destruct (aread n st) as [o st1] eqn:R.
    destruct (aread_spec n st o st1 Hn R) as (A & B & C).
    destruct o as [|x o].
    + inversion H; subst. cbn in A |- *. split4; auto; try discriminate.
      intros _. rewrite <- A. apply C. reflexivity.
    + destruct (drain ns st1) as [[os1 stp1] st2] eqn:D. inversion H; subst.
      destruct (IH st1 os1 stopped st' Hns D) as (A1 & B1 & C1 & D1).
      cbn [concat length firstn]. rewrite A, A1, <- app_assoc. split4; auto.
      constructor; [split; [discriminate|exact B]|exact D1].
Qed.

(* automaton = substitution *)
Definition drop_lf (s : bytes) : bytes :=
  match s with l :: s' => if l =? LF then s' else s | [] => [] end.

Lemma auto_to_crlf s : auto false s = to_crlf s /\ auto true s = to_crlf (drop_lf s).
Proof.
  induction s as [|c s (IH1 & IH2)]; [split; reflexivity|].
  cbn [auto to_crlf drop_lf]. unfold emit.
  destruct (c =? CR) eqn:E1.
  - cbn [fst snd app]. apply N.eqb_eq in E1; subst c.
    change (CR =? LF) with false. cbn [to_crlf]. change (CR =? CR) with true. cbn match.
    rewrite IH2. unfold drop_lf. destruct s as [|l s']; [split; reflexivity|].
    destruct (l =? LF); split; reflexivity.
  - destruct (c =? LF) eqn:E2.
    + cbn [fst snd app]. rewrite IH1. split; reflexivity.
    + cbn [fst snd app]. cbn [to_crlf]. rewrite E1, E2, IH1. split; reflexivity.
Qed.

Lemma concat_length_le {A} (l : list (list A)) :
  Forall (fun o => o <> []) l -> (length l <= length (concat l))%nat.
Proof.
  induction 1 as [|o l Ho Hl IH]; cbn; [lia|]. rewrite app_length.
  destruct o; [congruence|]. cbn. lia.
Qed.

Theorem upload_conv cks sizes :
  Forall (fun n => 1 <= n)%nat sizes ->
  (length (to_crlf (concat cks)) < length sizes)%nat ->
  exists os st',
    drain sizes (istart cks) = (os, true, st') /\
    concat os = to_crlf (concat cks) /\
    Forall2 (fun o n => o <> [] /\ (length o <= n)%nat) os (firstn (length os) sizes).
Proof.
  intros Hs Hl. destruct (drain sizes (istart cks)) as [[os stopped] st'] eqn:D.
  destruct (drain_spec sizes (istart cks) os stopped st' Hs D) as (A & B & C & F).
  unfold pending in A at 1. cbn in A. destruct (auto_to_crlf (concat cks)) as (T & _). rewrite T in A.
  exists os, st'. destruct stopped.
  - rewrite (B eq_refl), app_nil_r in A. repeat split; auto.
  - exfalso. specialize (C eq_refl).
    assert (length os <= length (concat os))%nat.
    { apply concat_length_le. clear - F. induction F as [|? ? ? ? [H _] ? IH]; constructor; auto. }
    assert (length (concat os) <= length (to_crlf (concat cks)))%nat by (rewrite A, app_length; lia).
    lia.
Qed.

(* whatever prefix of the read sequence has been performed, nothing is lost or invented *)
Theorem upload_prefix cks sizes os stopped st' :
  Forall (fun n => 1 <= n)%nat sizes -> drain sizes (istart cks) = (os, stopped, st') ->
  to_crlf (concat cks) = concat os ++ pending st'.
Proof.
  intros Hs D. destruct (drain_spec sizes (istart cks) os stopped st' Hs D) as (A & _).
  unfold pending in A at 1. cbn in A. destruct (auto_to_crlf (concat cks)) as (T & _).
  rewrite T in A. exact A.
Qed.

Lemma to_crlf_length s : (length (to_crlf s) <= 2 * length s)%nat.
Proof.
  assert (H : forall n s, (length s <= n)%nat -> (length (to_crlf s) <= 2 * length s)%nat).
  { induction n as [|n IH]; intros [|c t] L; cbn [length to_crlf] in *; try lia.
    destruct (c =? CR).
    - destruct t as [|l t']; cbn [length]; [lia|]. destruct (l =? LF).
      + pose proof (IH t' ltac:(cbn [length] in L; lia)). lia.
      + pose proof (IH (l :: t') ltac:(cbn [length] in *; lia)) as Q. cbn [length] in Q. lia.
    - destruct (c =? LF); pose proof (IH t ltac:(lia)); cbn [length]; lia. }
  apply (H (length s)). lia.
Qed.

(* ------------------------------------------------------------------ download *)
Definition cr_if (b : bool) : bytes := if b then [CR] else [].

Lemma owrite_spec : forall buf prev tail o p, owrite prev buf = (o, p) ->
  o ++ from_crlf (cr_if p ++ tail) = from_crlf (cr_if prev ++ buf ++ tail).
Proof.
  induction buf as [|ch rest IH]; intros prev tail o p H.
  - cbn in H. inversion H; subst. reflexivity.
  - cbn [owrite] in H. destruct (ch =? CR) eqn:E1.
    + apply N.eqb_eq in E1; subst ch. destruct prev.
      * destruct (owrite true rest) as [o1 p1] eqn:W. inversion H; subst.
        specialize (IH true tail o1 p W). cbn [cr_if app] in *.
        change (from_crlf (CR :: CR :: rest ++ tail)) with (CR :: from_crlf (CR :: rest ++ tail)).
        rewrite <- IH. reflexivity.
      * specialize (IH true tail o p H). cbn [cr_if app] in *. exact IH.
    + destruct (ch =? LF) eqn:E2.
      * apply N.eqb_eq in E2; subst ch. destruct (owrite false rest) as [o1 p1] eqn:W.
        inversion H; subst. specialize (IH false tail o1 p W). cbn [cr_if app] in *.
        destruct prev; cbn [cr_if app].
        -- change (from_crlf (CR :: LF :: rest ++ tail)) with (LF :: from_crlf (rest ++ tail)).
           rewrite <- IH. reflexivity.
        -- change (from_crlf (LF :: rest ++ tail)) with (LF :: from_crlf (rest ++ tail)).
           rewrite <- IH. reflexivity.
      * destruct (owrite false rest) as [o1 p1] eqn:W. inversion H; subst.
        specialize (IH false tail o1 p W). cbn [cr_if app] in *.
        assert (F : from_crlf (ch :: rest ++ tail) = ch :: from_crlf (rest ++ tail))
          by (cbn [from_crlf]; rewrite E1; reflexivity).
        destruct prev; cbn [cr_if app].
        -- assert (G : from_crlf (CR :: ch :: rest ++ tail) = CR :: from_crlf (ch :: rest ++ tail)).
           { cbn [from_crlf]. change (CR =? CR) with true. cbn match. rewrite E2. rewrite E1. reflexivity. }
           rewrite G, F, <- IH. reflexivity.
        -- rewrite F, <- IH. reflexivity.
Qed.

Theorem download_conv : forall blocks prev,
  sink_content (owrites prev blocks) = from_crlf (cr_if prev ++ concat blocks).
Proof.
  induction blocks as [|b bs IH]; intro prev.
  - cbn. destruct prev; reflexivity.
  - cbn [owrites concat]. destruct (owrite prev b) as [o p] eqn:W. cbn [sink_content].
    rewrite IH. apply owrite_spec. exact W.
Qed.

(* exactly one flush, as the last event; one sink write per block (plus one for a pending CR) *)
Theorem download_flush_last : forall blocks prev,
  exists ws, owrites prev blocks = ws ++ [SinkFlush] /\
             Forall (fun e => e <> SinkFlush) ws /\
             (length blocks <= length ws <= S (length blocks))%nat.
Proof.
  induction blocks as [|b bs IH]; intro prev.
  - cbn. destruct prev.
    + exists [SinkWrite [CR]]. split; [reflexivity|]. split; [|cbn; lia]. constructor; [discriminate|constructor].
    + exists []. split; [reflexivity|]. split; [constructor|cbn; lia].
  - cbn [owrites]. destruct (owrite prev b) as [o p]. destruct (IH p) as (ws & E & F & L).
    exists (SinkWrite o :: ws). rewrite E. split; [reflexivity|]. split; [|cbn [length]; lia].
    constructor; [discriminate|exact F].
Qed.

(* ------------------------------------------------------------------ round trip *)
Theorem lf_text_roundtrip s : mem CR s = false -> from_crlf (to_crlf s) = s.
Proof.
  induction s as [|c s IH]; [reflexivity|]. unfold mem. cbn [existsb]. intro H.
  apply orb_false_iff in H as (H1 & H2). rewrite N.eqb_sym in H1.
  cbn [to_crlf]. rewrite H1. destruct (c =? LF) eqn:E.
  - apply N.eqb_eq in E; subst c. cbn [from_crlf]. change (CR =? CR) with true. cbn match.
    change (LF =? LF) with true. cbn match. rewrite (IH H2). reflexivity.
  - cbn [from_crlf]. rewrite H1, (IH H2). reflexivity.
Qed.
