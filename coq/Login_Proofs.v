(* Login_Proofs.v - the login sequence against the reference table of C10 (USER; PASS iff 331; stop at the first
   negative reply; with TLS PBSZ 0 and PROT P; TYPE for the configured type), for every reply at every step. *)
From LibFtp Require Import Bytes Decimal Reply Endpoint DataConn Client Client_Proofs.
Local Open Scope N_scope.

(* the session is in step: connected, nothing buffered, nothing held back, the peer will answer with rs *)
Definition insync (w : world) (rs : list reaction) : Prop := ready w /\ w_pending w = [] /\ w_cur w = rs.

Definition wire_since (n : nat) (w : world) : list wire_item := wire_events (skipn n (w_trace w)).

Lemma wire_since_after n w line x r rest :
  insync w (r :: rest) -> simple_reaction r x -> (n <= length (w_trace w))%nat ->
  let w1 := after_command w line x in
  insync w1 rest /\ w_cfg w1 = w_cfg w /\ (length (w_trace w) <= length (w_trace w1))%nat /\
  wire_since n w1 = wire_since n w ++ [WLine line; WReply x].
Proof.
  intros (Hr & Hp & Hc) Hs Hn.
  destruct (after_command_facts w line x r rest Hr Hc Hs Hp) as (A & B & C & D & _ & _ & _ & _ & _ & T).
  cbv zeta. split; [split; [exact A|split; [exact C|exact B]]|]. split; [exact D|].
  unfold wire_since. rewrite T. split.
  - rewrite app_length. apply Nat.le_add_r.
  - rewrite skipn_app. replace (n - length (w_trace w))%nat with O by (symmetry; apply Nat.sub_0_le; exact Hn).
    cbn [skipn]. rewrite !wire_events_app, !wire_events_block. reflexivity.
Qed.

(* one command / reply exchange of a program, in the form used to chain steps *)
Lemma sync_step verb arg k w r rest x n :
  insync w (r :: rest) -> simple_reaction r x -> arg_ok arg -> (n <= length (w_trace w))%nat ->
  exists w1, run (process_command verb arg k) w = run (k x) w1 /\ insync w1 rest /\ w_cfg w1 = w_cfg w /\
    (n <= length (w_trace w1))%nat /\ wire_since n w1 = wire_since n w ++ [WLine (line_of verb arg); WReply x].
Proof.
  intros Hi Hs Ha Hn. pose proof Hi as (Hr & Hp & Hc).
  exists (after_command w (line_of verb arg) x).
  split; [exact (pc_step verb arg k w r rest x Hr Hc Hs Ha)|].
  destruct (wire_since_after n w (line_of verb arg) x r rest Hi Hs Hn) as (A & B & C & D).
  split; [exact A|]. split; [exact B|]. split; [eapply Nat.le_trans; eassumption|exact D].
Qed.

Lemma sync_step_raw line k w r rest x n :
  insync w (r :: rest) -> simple_reaction r x -> (n <= length (w_trace w))%nat ->
  exists w1, run (process_raw line k) w = run (k x) w1 /\ insync w1 rest /\ w_cfg w1 = w_cfg w /\
    (n <= length (w_trace w1))%nat /\ wire_since n w1 = wire_since n w ++ [WLine line; WReply x].
Proof.
  intros Hi Hs Hn. pose proof Hi as (Hr & Hp & Hc).
  exists (after_command w line x).
  split; [exact (pc_step_line line k w r rest x Hr Hc Hs)|].
  destruct (wire_since_after n w line x r rest Hi Hs Hn) as (A & B & C & D).
  split; [exact A|]. split; [exact B|]. split; [eapply Nat.le_trans; eassumption|exact D].
Qed.

(* ---- the reference: what login exchanges, as a function of the replies the server gives, in order ---- *)
Definition exchange := (bytes * reply)%type.

Definition login_tail (tls : bool) (t : ttype) (r : reply) (ys : list reply) : list exchange :=
  if is_negative r then [] else
  let type_step (zs : list reply) : list exchange :=
    match zs with z :: _ => [(TYPE_ ++ SP :: type_arg t, z)] | [] => [] end in
  if tls then
    match ys with
    | y3 :: ys3 =>
        (PBSZ_0, y3) :: (if is_negative y3 then [] else
          match ys3 with
          | y4 :: ys4 => (PROT_P, y4) :: (if is_negative y4 then [] else type_step ys4)
          | [] => []
          end)
    | [] => []
    end
  else type_step ys.

Definition login_exchange (tls : bool) (t : ttype) (u pw : bytes) (xs : list reply) : list exchange :=
  match xs with
  | [] => []
  | x1 :: xs1 =>
      if code x1 =? 331 then
        match xs1 with
        | x2 :: xs2 => (USER_ ++ SP :: u, x1) :: (PASS_ ++ SP :: pw, x2) :: login_tail tls t x2 xs2
        | [] => [(USER_ ++ SP :: u, x1)]
        end
      else (USER_ ++ SP :: u, x1) :: login_tail tls t x1 xs1
  end.

Definition exchange_wire (ex : list exchange) : list wire_item :=
  flat_map (fun e => [WLine (fst e); WReply (snd e)]) ex.

Lemma exchange_wire_cons l x ex : exchange_wire ((l, x) :: ex) = [WLine l; WReply x] ++ exchange_wire ex.
Proof. reflexivity. Qed.

(* reactions and the replies they carry *)
Inductive simple_all : list reaction -> list reply -> Prop :=
| sa_nil : simple_all [] []
| sa_cons r x rs xs : simple_reaction r x -> simple_all rs xs -> simple_all (r :: rs) (x :: xs).

Lemma step_login_unfold w u pw : step w (ALogin u pw) = run (op_login u pw) (set_io w no_io).
Proof. reflexivity. Qed.

(* the tail of the login program (after the USER / PASS phase) against login_tail *)
Lemma login_tail_run (k : list reply -> prog) cfg w r acc rs ys n :
  insync w rs -> simple_all rs ys -> (3 <= length ys)%nat -> (n <= length (w_trace w))%nat ->
  let ex := login_tail (c_tls cfg) (c_type cfg) r ys in
  let after_pass :=
      (if is_negative r then k acc else
       if c_tls cfg then
         process_raw PBSZ_0 (fun r3 => if is_negative r3 then k (acc ++ [r3]) else
         process_raw PROT_P (fun r4 => if is_negative r4 then k (acc ++ [r3; r4]) else
           process_command TYPE_ (Some (type_arg (c_type cfg))) (fun r5 => k ((acc ++ [r3; r4]) ++ [r5]))))
       else process_command TYPE_ (Some (type_arg (c_type cfg))) (fun r5 => k (acc ++ [r5]))) in
  exists w1, run after_pass w = run (k (acc ++ map snd ex)) w1 /\ insync w1 (skipn (length ex) rs) /\
    w_cfg w1 = w_cfg w /\ (n <= length (w_trace w1))%nat /\ wire_since n w1 = wire_since n w ++ exchange_wire ex.
Proof.
  intros Hi Hall Hlen Hn. cbv zeta. unfold login_tail.
  destruct (is_negative r) eqn:Nr.
  { exists w. cbn [map length skipn exchange_wire flat_map]. rewrite !app_nil_r. auto. }
  assert (Targ : arg_ok (Some (type_arg (c_type cfg)))).
  { cbn. destruct (c_type cfg); reflexivity. }
  destruct (c_tls cfg) eqn:Tl.
  - destruct Hall as [|r3 y3 rs3 ys3 S3 Hall3]; [cbn in Hlen; inversion Hlen|].
    destruct (sync_step_raw PBSZ_0 (fun r3 => if is_negative r3 then k (acc ++ [r3]) else
         process_raw PROT_P (fun r4 => if is_negative r4 then k (acc ++ [r3; r4]) else
           process_command TYPE_ (Some (type_arg (c_type cfg))) (fun r5 => k ((acc ++ [r3; r4]) ++ [r5]))))
         w r3 rs3 y3 n Hi S3 Hn) as (w3 & E3 & I3 & C3 & L3 & W3).
    rewrite E3. destruct (is_negative y3) eqn:N3.
    { exists w3. cbn [map snd length skipn]. split; [reflexivity|]. split; [exact I3|]. split; [exact C3|]. split; [exact L3|].
      rewrite W3. reflexivity. }
    destruct Hall3 as [|r4 y4 rs4 ys4 S4 Hall4]; [cbn in Hlen; repeat apply le_S_n in Hlen; inversion Hlen|].
    destruct (sync_step_raw PROT_P (fun r4 => if is_negative r4 then k (acc ++ [y3; r4]) else
           process_command TYPE_ (Some (type_arg (c_type cfg))) (fun r5 => k ((acc ++ [y3; r4]) ++ [r5])))
         w3 r4 rs4 y4 n I3 S4 L3) as (w4 & E4 & I4 & C4 & L4 & W4).
    rewrite E4. destruct (is_negative y4) eqn:N4.
    { exists w4. cbn [map snd length skipn]. split; [reflexivity|]. split; [exact I4|]. split; [congruence|]. split; [exact L4|].
      rewrite W4, W3, <- app_assoc. reflexivity. }
    destruct Hall4 as [|r5 y5 rs5 ys5 S5 Hall5]; [cbn in Hlen; repeat apply le_S_n in Hlen; inversion Hlen|].
    destruct (sync_step TYPE_ (Some (type_arg (c_type cfg))) (fun r5 => k ((acc ++ [y3; y4]) ++ [r5]))
         w4 r5 rs5 y5 n I4 S5 Targ L4) as (w5 & E5 & I5 & C5 & L5 & W5).
    rewrite E5. exists w5. cbn [map snd length skipn]. split; [rewrite <- app_assoc; reflexivity|].
    split; [exact I5|]. split; [congruence|]. split; [exact L5|].
    rewrite W5, W4, W3, <- !app_assoc. reflexivity.
  - destruct Hall as [|r5 y5 rs5 ys5 S5 Hall5]; [cbn in Hlen; inversion Hlen|].
    destruct (sync_step TYPE_ (Some (type_arg (c_type cfg))) (fun r5 => k (acc ++ [r5]))
         w r5 rs5 y5 n Hi S5 Targ Hn) as (w5 & E5 & I5 & C5 & L5 & W5).
    rewrite E5. exists w5. cbn [map snd length skipn]. split; [reflexivity|]. split; [exact I5|]. split; [exact C5|].
    split; [exact L5|]. rewrite W5. reflexivity.
Qed.

(* C10: login, for every reply at every step *)
Theorem login_call w u pw rs xs :
  insync w rs -> simple_all rs xs -> (5 <= length xs)%nat -> has_crlf u = false -> has_crlf pw = false ->
  let ex := login_exchange (c_tls (w_cfg w)) (c_type (w_cfg w)) u pw xs in
  exists w', step w (ALogin u pw) = (OReturn (RvReplies (map snd ex)), w') /\
    insync w' (skipn (length ex) rs) /\ w_cfg w' = w_cfg w /\
    wire_since (length (w_trace w)) w' = exchange_wire ex.
Proof.
  intros Hi Hall Hlen Hu Hpw. cbv zeta.
  rewrite step_login_unfold. unfold op_login, process_login.
  rewrite run_checkarg, Hpw, run_getcfg.
  set (w0 := set_io w no_io).
  assert (Hi0 : insync w0 rs) by exact Hi.
  change (w_cfg w0) with (w_cfg w).
  set (cfg := w_cfg w).
  assert (Hn0 : (length (w_trace w) <= length (w_trace w0))%nat) by apply Nat.le_refl.
  assert (W0 : wire_since (length (w_trace w)) w0 = []).
  { unfold wire_since. change (w_trace w0) with (w_trace w). rewrite skipn_all. reflexivity. }
  unfold login_exchange.
  destruct Hall as [|r1 x1 rs1 xs1 S1 Hall1]; [cbn in Hlen; inversion Hlen|].
  match goal with |- context [process_command USER_ (Some u) ?K] => set (K1 := K) end.
  destruct (sync_step USER_ (Some u) K1 w0 r1 rs1 x1 (length (w_trace w)) Hi0 S1 Hu Hn0) as (w1 & E1 & I1 & C1 & L1 & W1).
  rewrite E1. unfold K1. clear K1 E1.
  destruct (code x1 =? 331) eqn:E331.
  - destruct Hall1 as [|r2 x2 rs2 xs2 S2 Hall2]; [cbn in Hlen; repeat apply le_S_n in Hlen; inversion Hlen|].
    match goal with |- context [process_command PASS_ (Some pw) ?K] => set (K2 := K) end.
    destruct (sync_step PASS_ (Some pw) K2 w1 r2 rs2 x2 (length (w_trace w)) I1 S2 Hpw L1) as (w2 & E2 & I2 & C2 & L2 & W2).
    rewrite E2. unfold K2. clear K2 E2.
    assert (Hl2 : (3 <= length xs2)%nat) by (cbn in Hlen; repeat apply le_S_n in Hlen; exact Hlen).
    destruct (login_tail_run (fun acc' => Ret (RvReplies acc')) cfg w2 x2 ([] ++ [x1; x2]) rs2 xs2 (length (w_trace w))
                I2 Hall2 Hl2 L2) as (w3 & E3 & I3 & C3 & L3 & W3).
    cbv zeta in E3. rewrite E3, run_ret. exists w3.
    split; [reflexivity|]. split; [exact I3|]. split; [rewrite C3, C2, C1; reflexivity|].
    rewrite W3, W2, W1, W0. reflexivity.
  - assert (Hl1 : (3 <= length xs1)%nat).
    { cbn in Hlen. apply le_S_n in Hlen. eapply Nat.le_trans; [|exact Hlen]. repeat constructor. }
    destruct (login_tail_run (fun acc' => Ret (RvReplies acc')) cfg w1 x1 ([] ++ [x1]) rs1 xs1 (length (w_trace w))
                I1 Hall1 Hl1 L1) as (w3 & E3 & I3 & C3 & L3 & W3).
    cbv zeta in E3. rewrite E3, run_ret. exists w3.
    split; [reflexivity|]. split; [exact I3|]. split; [rewrite C3, C1; reflexivity|].
    rewrite W3, W1, W0. reflexivity.
Qed.

(* the login table on exactly the replies consumed: None when the list ends before the sequence does *)
Definition tail_opt (tls : bool) (t : ttype) (r : reply) (ys : list reply) : option (list exchange) :=
  if is_negative r then Some [] else
  let type_step (zs : list reply) : option (list exchange) :=
    match zs with z :: _ => Some [(TYPE_ ++ SP :: type_arg t, z)] | [] => None end in
  if tls then
    match ys with
    | y3 :: ys3 =>
        if is_negative y3 then Some [(PBSZ_0, y3)] else
        match ys3 with
        | y4 :: ys4 => if is_negative y4 then Some [(PBSZ_0, y3); (PROT_P, y4)]
                       else option_map (fun l => (PBSZ_0, y3) :: (PROT_P, y4) :: l) (type_step ys4)
        | [] => None
        end
    | [] => None
    end
  else type_step ys.

Definition login_opt (tls : bool) (t : ttype) (u pw : bytes) (xs : list reply) : option (list exchange) :=
  match xs with
  | [] => None
  | x1 :: xs1 =>
      if code x1 =? 331 then
        match xs1 with
        | x2 :: xs2 => option_map (fun l => (USER_ ++ SP :: u, x1) :: (PASS_ ++ SP :: pw, x2) :: l) (tail_opt tls t x2 xs2)
        | [] => None
        end
      else option_map (fun l => (USER_ ++ SP :: u, x1) :: l) (tail_opt tls t x1 xs1)
  end.

(* where it is defined it is the table of Login_Proofs.v *)
Lemma tail_opt_table tls t r ys ex : tail_opt tls t r ys = Some ex -> login_tail tls t r ys = ex.
Proof.
  unfold tail_opt, login_tail. destruct (is_negative r); [intro H; inversion H; reflexivity|].
  destruct tls.
  - destruct ys as [|y3 ys3]; [discriminate|]. destruct (is_negative y3); [intro H; inversion H; reflexivity|].
    destruct ys3 as [|y4 ys4]; [discriminate|]. destruct (is_negative y4); [intro H; inversion H; reflexivity|].
    destruct ys4 as [|y5 ys5]; [discriminate|]. intro H; inversion H; reflexivity.
  - destruct ys as [|y5 ys5]; [discriminate|]. intro H; inversion H; reflexivity.
Qed.
Lemma login_opt_table tls t u pw xs ex : login_opt tls t u pw xs = Some ex -> login_exchange tls t u pw xs = ex.
Proof.
  unfold login_opt, login_exchange. destruct xs as [|x1 xs1]; [discriminate|].
  destruct (code x1 =? 331).
  - destruct xs1 as [|x2 xs2]; [discriminate|]. destruct (tail_opt tls t x2 xs2) as [l|] eqn:T; [|discriminate].
    intro H; inversion H. rewrite (tail_opt_table _ _ _ _ _ T). reflexivity.
  - destruct (tail_opt tls t x1 xs1) as [l|] eqn:T; [|discriminate].
    intro H; inversion H. rewrite (tail_opt_table _ _ _ _ _ T). reflexivity.
Qed.

Lemma simple_all_app_inv rs xs : simple_all rs xs -> length rs = length xs.
Proof. induction 1; cbn; congruence. Qed.

(* the tail of the login program on a script prefix that is exactly what it consumes *)
Lemma login_tail_run_exact (k : list reply -> prog) cfg w r acc rs ys rest ex n :
  insync w (rs ++ rest) -> simple_all rs ys -> tail_opt (c_tls cfg) (c_type cfg) r ys = Some ex -> length ex = length ys ->
  (n <= length (w_trace w))%nat ->
  let after_pass :=
      (if is_negative r then k acc else
       if c_tls cfg then
         process_raw PBSZ_0 (fun r3 => if is_negative r3 then k (acc ++ [r3]) else
         process_raw PROT_P (fun r4 => if is_negative r4 then k (acc ++ [r3; r4]) else
           process_command TYPE_ (Some (type_arg (c_type cfg))) (fun r5 => k ((acc ++ [r3; r4]) ++ [r5]))))
       else process_command TYPE_ (Some (type_arg (c_type cfg))) (fun r5 => k (acc ++ [r5]))) in
  exists w1, run after_pass w = run (k (acc ++ map snd ex)) w1 /\ insync w1 rest /\
    w_cfg w1 = w_cfg w /\ (n <= length (w_trace w1))%nat /\ wire_since n w1 = wire_since n w ++ exchange_wire ex.
Proof.
  intros Hi Hall Hex Hlen Hn. cbv zeta. unfold tail_opt in Hex.
  assert (Targ : arg_ok (Some (type_arg (c_type cfg)))) by (cbn; destruct (c_type cfg); reflexivity).
  destruct (is_negative r) eqn:Nr.
  { inversion Hex; subst ex. destruct ys; [|discriminate]. inversion Hall; subst. cbn [app] in Hi.
    exists w. cbn [map exchange_wire flat_map]. rewrite !app_nil_r. auto. }
  destruct (c_tls cfg) eqn:Tl.
  - destruct Hall as [|r3 y3 rs3 ys3 S3 Hall3]; [discriminate|]. cbn [app] in Hi.
    destruct (sync_step_raw PBSZ_0 (fun r3 => if is_negative r3 then k (acc ++ [r3]) else
         process_raw PROT_P (fun r4 => if is_negative r4 then k (acc ++ [r3; r4]) else
           process_command TYPE_ (Some (type_arg (c_type cfg))) (fun r5 => k ((acc ++ [r3; r4]) ++ [r5]))))
         w r3 (rs3 ++ rest) y3 n Hi S3 Hn) as (w3 & E3 & I3 & C3 & L3 & W3).
    rewrite E3. destruct (is_negative y3) eqn:N3.
    { inversion Hex; subst ex. destruct ys3; [|discriminate]. inversion Hall3; subst. cbn [app] in I3.
      exists w3. cbn [map snd]. split; [reflexivity|]. split; [exact I3|]. split; [exact C3|]. split; [exact L3|].
      rewrite W3. reflexivity. }
    destruct Hall3 as [|r4 y4 rs4 ys4 S4 Hall4]; [discriminate|]. cbn [app] in I3.
    destruct (sync_step_raw PROT_P (fun r4 => if is_negative r4 then k (acc ++ [y3; r4]) else
           process_command TYPE_ (Some (type_arg (c_type cfg))) (fun r5 => k ((acc ++ [y3; r4]) ++ [r5])))
         w3 r4 (rs4 ++ rest) y4 n I3 S4 L3) as (w4 & E4 & I4 & C4 & L4 & W4).
    rewrite E4. destruct (is_negative y4) eqn:N4.
    { inversion Hex; subst ex. destruct ys4; [|discriminate]. inversion Hall4; subst. cbn [app] in I4.
      exists w4. cbn [map snd]. split; [reflexivity|]. split; [exact I4|]. split; [congruence|]. split; [exact L4|].
      rewrite W4, W3, <- app_assoc. reflexivity. }
    destruct Hall4 as [|r5 y5 rs5 ys5 S5 Hall5]; [discriminate|]. cbn [app option_map] in I4, Hex.
    inversion Hex; subst ex. destruct ys5; [|discriminate]. inversion Hall5; subst. cbn [app] in I4.
    destruct (sync_step TYPE_ (Some (type_arg (c_type cfg))) (fun r5 => k ((acc ++ [y3; y4]) ++ [r5]))
         w4 r5 rest y5 n I4 S5 Targ L4) as (w5 & E5 & I5 & C5 & L5 & W5).
    rewrite E5. exists w5. cbn [map snd]. split; [rewrite <- app_assoc; reflexivity|].
    split; [exact I5|]. split; [congruence|]. split; [exact L5|].
    rewrite W5, W4, W3, <- !app_assoc. reflexivity.
  - destruct Hall as [|r5 y5 rs5 ys5 S5 Hall5]; [discriminate|]. inversion Hex; subst ex.
    destruct ys5; [|discriminate]. inversion Hall5; subst. cbn [app] in Hi.
    destruct (sync_step TYPE_ (Some (type_arg (c_type cfg))) (fun r5 => k (acc ++ [r5]))
         w r5 rest y5 n Hi S5 Targ Hn) as (w5 & E5 & I5 & C5 & L5 & W5).
    rewrite E5. exists w5. cbn [map snd]. split; [reflexivity|]. split; [exact I5|]. split; [exact C5|].
    split; [exact L5|]. rewrite W5. reflexivity.
Qed.

(* login on a script prefix that is exactly what the table consumes; whatever follows in the script is untouched *)
Theorem login_call_exact w u pw rs xs rest ex :
  insync w (rs ++ rest) -> simple_all rs xs -> has_crlf u = false -> has_crlf pw = false ->
  login_opt (c_tls (w_cfg w)) (c_type (w_cfg w)) u pw xs = Some ex -> length ex = length xs ->
  exists w', step w (ALogin u pw) = (OReturn (RvReplies (map snd ex)), w') /\
    insync w' rest /\ w_cfg w' = w_cfg w /\ wire_since (length (w_trace w)) w' = exchange_wire ex.
Proof.
  intros Hi Hall Hu Hpw Hex Hlen.
  rewrite step_login_unfold. unfold op_login, process_login.
  rewrite run_checkarg, Hpw, run_getcfg.
  set (w0 := set_io w no_io).
  assert (Hi0 : insync w0 (rs ++ rest)) by exact Hi.
  change (w_cfg w0) with (w_cfg w).
  set (cfg := w_cfg w) in *.
  assert (Hn0 : (length (w_trace w) <= length (w_trace w0))%nat) by apply Nat.le_refl.
  assert (W0 : wire_since (length (w_trace w)) w0 = []).
  { unfold wire_since. change (w_trace w0) with (w_trace w). rewrite skipn_all. reflexivity. }
  unfold login_opt in Hex.
  destruct Hall as [|r1 x1 rs1 xs1 S1 Hall1]; [discriminate|]. cbn [app] in Hi0.
  match goal with |- context [process_command USER_ (Some u) ?K] => set (K1 := K) end.
  destruct (sync_step USER_ (Some u) K1 w0 r1 (rs1 ++ rest) x1 (length (w_trace w)) Hi0 S1 Hu Hn0) as (w1 & E1 & I1 & C1 & L1 & W1).
  rewrite E1. unfold K1. clear K1 E1.
  destruct (code x1 =? 331) eqn:E331.
  - destruct Hall1 as [|r2 x2 rs2 xs2 S2 Hall2]; [discriminate|]. cbn [app] in I1.
    destruct (tail_opt (c_tls cfg) (c_type cfg) x2 xs2) as [l|] eqn:T; [|discriminate]. inversion Hex; subst ex.
    match goal with |- context [process_command PASS_ (Some pw) ?K] => set (K2 := K) end.
    destruct (sync_step PASS_ (Some pw) K2 w1 r2 (rs2 ++ rest) x2 (length (w_trace w)) I1 S2 Hpw L1) as (w2 & E2 & I2 & C2 & L2 & W2).
    rewrite E2. unfold K2. clear K2 E2.
    assert (Hl : length l = length xs2) by (cbn in Hlen; congruence).
    destruct (login_tail_run_exact (fun acc' => Ret (RvReplies acc')) cfg w2 x2 ([] ++ [x1; x2]) rs2 xs2 rest l (length (w_trace w))
                I2 Hall2 T Hl L2) as (w3 & E3 & I3 & C3 & L3 & W3).
    cbv zeta in E3. rewrite E3, run_ret. exists w3.
    split; [reflexivity|]. split; [exact I3|]. split; [rewrite C3, C2, C1; reflexivity|].
    rewrite W3, W2, W1, W0. reflexivity.
  - destruct (tail_opt (c_tls cfg) (c_type cfg) x1 xs1) as [l|] eqn:T; [|discriminate]. inversion Hex; subst ex.
    assert (Hl : length l = length xs1) by (cbn in Hlen; congruence).
    destruct (login_tail_run_exact (fun acc' => Ret (RvReplies acc')) cfg w1 x1 ([] ++ [x1]) rs1 xs1 rest l (length (w_trace w))
                I1 Hall1 T Hl L1) as (w3 & E3 & I3 & C3 & L3 & W3).
    cbv zeta in E3. rewrite E3, run_ret. exists w3.
    split; [reflexivity|]. split; [exact I3|]. split; [rewrite C3, C1; reflexivity|].
    rewrite W3, W1, W0. reflexivity.
Qed.
