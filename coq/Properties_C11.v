(* C11 - with TLS configured nothing but AUTH TLS travels in clear text.
   The theorems are about ordering and gating in the model. PARTIAL: that OpenSSL actually encrypts, verifies the
   chain, or reports a missing close-notify as an error is runtime behaviour, observed by the correspondence
   (raw bytes ahead of the peer's TLS engine), not provable here. *)
From LibFtp Require Import Bytes Decimal Reply Endpoint Ascii DataConn DataConn_Proofs Client Client_Proofs Login_Proofs Transfer_Proofs Transfer_More Tls_Failures Tls_Global Data_Tls_Global Modes_Proofs Ctl_Proofs History_Proofs History2_Proofs Session_Proofs.
Local Open Scope N_scope.

(* every command line is written inside TLS exactly when the TLS layer of the control socket is up; between the
   switch to the TLS socket object and the completed handshake no command can be written at all *)
Theorem C11_send_secured_iff_tls_up : forall w line w', do_send w line = Some w' ->
  (w_ssl w = true -> w_tls_up w = true) /\
  (w_peer_closed w = false ->
   w_trace w' = w_trace w ++ block (w_obs w) (ORequest line) ++ [EWire (w_ssl w && w_tls_up w) (w_ord w) line]).
Proof. exact send_is_secured_iff_tls_up. Qed.
Print Assumptions C11_send_secured_iff_tls_up.

(* connect with a TLS context: after a non-negative greeting the ONLY thing sent before the handshake is the fixed
   line AUTH TLS; a negative answer ends the call (nothing further is sent); otherwise the socket is switched and
   the handshake runs BEFORE the login program *)
Theorem C11_connect_prefix : forall h p login,
  exists login_part,
  op_connect h p login =
  let cont (acc : list reply) (last : reply) : prog :=
    if is_negative last then Ret (RvReplies acc) else
    GetCfg (fun cfg =>
      if c_tls cfg then
        SendRaw AUTH_TLS (Recv (fun a =>
          if is_negative a then Ret (RvReplies (acc ++ [a]))
          else CtlSetSsl true (CtlHandshake (login_part (acc ++ [a])))))
      else login_part acc) in
  let body := CtlConnect h p (Notify (OConnected h p) (Recv (fun g =>
                if code g =? 120 then Recv (fun g2 => cont [g; g2] g2) else cont [g] g))) in
  match login with Some (u, pw) => CheckArg u (CheckArg pw body) | None => body end.
Proof. intros. eexists. reflexivity. Qed.
Print Assumptions C11_connect_prefix.

(* a failed control handshake (peer misbehaves, certificate refused) ends the call in ftp_exception: the login
   program is never run, no credentials are sent *)
Theorem C11_handshake_failure_stops : forall k w, w_last_tls_ok w && negb (w_peer_closed w) = false ->
  run (CtlHandshake k) w = (OThrow, emit w [ECtl (CHandshake false O)]).
Proof. intros k w H. exact (proj2 (ctl_handshake_cases k w) H). Qed.
Print Assumptions C11_handshake_failure_stops.

(* on success the layer is up, so by the first theorem every later command - USER and PASS included - is secured *)
Theorem C11_handshake_success_secures : forall k w, w_last_tls_ok w && negb (w_peer_closed w) = true ->
  exists w1, run (CtlHandshake k) w = run k w1 /\ w_tls_up w1 = true /\ w_ssl w1 = w_ssl w.
Proof.
  intros k w H. destruct (proj1 (ctl_handshake_cases k w) H) as (w1 & A & B & C & _). exists w1. auto.
Qed.
Print Assumptions C11_handshake_success_secures.

(* the data connection: with a TLS context its handshake takes place after the transfer command was accepted and
   before the data loop (create_data_connection: ... if negative: stop; else DHandshakeP; then the pump) *)
Theorem C11_data_handshake_position : forall verb arg acc k_ok k_none,
  create_data_connection verb arg acc k_ok k_none =
  GetCfg (fun cfg =>
    let main (acc1 : list reply) (passive : bool) : prog :=
      process_command verb arg (fun r2 =>
        let acc2 := acc1 ++ [r2] in
        if is_negative r2 then (if passive then DDisconnect true (k_none acc2) else k_none acc2)
        else
          let ready := if c_tls cfg then DHandshakeP (k_ok acc2) else k_ok acc2 in
          if passive then ready else DAccept ready) in
    match c_mode cfg, c_rfc2428 cfg with
    | Passive, true =>
        process_command EPSV_ None (fun r =>
          let acc1 := acc ++ [r] in
          if is_negative r then k_none acc1 else
          match try_parse_epsv_reply (text r) with
          | None => Throw
          | Some port => DNew (DConnect None port (main acc1 true))
          end)
    | Passive, false =>
        process_command PASV_ None (fun r =>
          let acc1 := acc ++ [r] in
          if is_negative r then k_none acc1 else
          match try_parse_pasv_reply (text r) with
          | None => Throw
          | Some (ip, port) => DNew (DConnect (Some ip) port (main acc1 true))
          end)
    | Active, rfc =>
        IsOpen (fun b => if negb b then Throw else
        DNew (DListenP (SendAdv (if rfc then AdvEprt else AdvPort) (Recv (fun r =>
          let acc1 := acc ++ [r] in
          if is_negative r then k_none acc1 else main acc1 false)))))
    end).
Proof. reflexivity. Qed.
Print Assumptions C11_data_handshake_position.

(* a data stream that ends by an error - for a TLS stream: without close-notify - is reported as an error, never
   delivered as a complete download or listing *)
Theorem C11_truncated_data_is_error : forall t s segs ev r cb',
  data_recv t s segs DErr None = (ev, r, cb') -> r = PThrow.
Proof. exact truncated_download_throws. Qed.
Print Assumptions C11_truncated_data_is_error.

(* connect with a TLS context, everything the call adds to the trace: AUTH TLS is the only line written in clear, the switch to the TLS socket and the handshake follow its positive reply immediately *)
Theorem C11_connect_tls : forall w h p s srest g r1 rs a,
  w_open w = false -> w_script w = s :: srest -> s_reachable s = true -> c_tls (w_cfg w) = true ->
  r_now (s_greeting s) = [RReply g] -> r_close_after (s_greeting s) = false -> code g <> 421 -> code g <> 120 ->
  is_negative g = false ->
  s_reactions s = r1 :: rs -> simple_reaction r1 a -> is_negative a = false -> r_tls_ok r1 = true ->
  exists w', step w (AConnect h p None) = (OReturn (RvReplies [g; a]), w') /\
    insync w' rs /\ w_ssl w' = true /\ w_tls_up w' = true /\ w_sess_id w' = w_next_sess w /\
    w_script w' = srest /\ w_cfg w' = w_cfg w /\ w_cur6 w' = s_ip6 s /\ w_tls_clean w' = s_tls_close_clean s /\ w_data w' = w_data w /\
    skipn (length (w_trace w)) (w_trace w') =
      [ECtl (CConnect h p true)] ++ block (w_obs w) (OConnected h p) ++ [ERecv (w_ord w) g] ++ block (w_obs w) (OReply g) ++
      block (w_obs w) (ORequest AUTH_TLS) ++ [EWire false (S (w_ord w)) AUTH_TLS] ++ [ERecv (S (w_ord w)) a] ++
      block (w_obs w) (OReply a) ++ [ECtl (CSetSsl true); ECtl (CHandshake true (w_next_sess w))].
Proof. exact connect_tls. Qed.
Print Assumptions C11_connect_tls.

(* a whole download over TLS: the data connection is wrapped after the transfer command was accepted and before any byte is read, and is shut down (close-notify) before it is closed *)
Theorem C11_download_over_tls : forall w path r1 r2 rest x1 x2 x3 ip port,
  insync w (r1 :: r2 :: rest) -> w_data w = None ->
  c_mode (w_cfg w) = Passive -> c_tls (w_cfg w) = true ->
  has_crlf path = false ->
  simple_reaction r1 x1 -> is_negative x1 = false -> passive_target (w_cfg w) x1 ip port ->
  dp_reachable (r_data r1) = true ->
  accepts_transfer r2 x2 x3 -> dp_end (r_data r2) = DEof ->
  dp_tls_ok (r_data r2) = true -> dp_shutdown_ok (r_data r2) = true ->
  exists w', step w (ADownload path None None) = (OReturn (RvReplies [x1; x2; x3]), w') /\
    insync w' rest /\ w_data w' = None /\ w_cfg w' = w_cfg w /\
    w_sess_id w' = w_sess_id w /\ w_ssl w' = w_ssl w /\ w_tls_up w' = w_tls_up w /\
    sink_bytes (io_events (skipn (length (w_trace w)) (w_trace w'))) = delivered (c_type (w_cfg w)) (concat (dp_segs (r_data r2))) /\
    wire_events (skipn (length (w_trace w)) (w_trace w')) =
      [WLine (setup_line (w_cfg w)); WReply x1; WLine (RETR_ ++ SP :: path); WReply x2; WReply x3] /\
    data_events (skipn (length (w_trace w)) (w_trace w')) =
      [DNewObj; DConnectTo ip port true;
       DHandshake (if c_resume (w_cfg w) then Some (w_sess_id w) else None) true;
       DTlsShutdown true; DTcpShutdown; DClose].
Proof. exact download_passive_complete_tls. Qed.
Print Assumptions C11_download_over_tls.

(* a WHOLE TLS session - connect (AUTH TLS, handshake), any history in any configuration, QUIT with the TLS shutdown: every call returns its own replies and the client ends disconnected, its socket object plain, holding nothing *)
Theorem C11_whole_tls_session : forall w0 h p s srest g a r1 cs rss xss rq xq,
  w_open w0 = false -> w_data w0 = None -> w_script w0 = s :: srest -> s_reachable s = true -> c_tls (w_cfg w0) = true ->
  r_now (s_greeting s) = [RReply g] -> r_close_after (s_greeting s) = false -> code g <> 421 -> code g <> 120 -> is_negative g = false ->
  s_reactions s = r1 :: rss ++ [rq] -> simple_reaction r1 a -> is_negative a = false -> r_tls_ok r1 = true ->
  s_tls_close_clean s = true ->
  (forall w1, w_cfg w1 = w_cfg w0 -> w_cur6 w1 = s_ip6 s -> historyK (kit_of w1) (c_type (w_cfg w0)) cs rss xss) ->
  simple_reaction rq xq ->
  let '(os, w') := steps w0 (AConnect h p None :: cs ++ [ADisconnect true]) in
  map outcome_replies os = map Some ([g; a] :: xss ++ [[xq]]) /\
  w_open w' = false /\ w_ssl w' = false /\ w_tls_up w' = false /\ w_data w' = None /\ held w' = O /\ w_script w' = srest.
Proof. exact whole_session_tls. Qed.
Print Assumptions C11_whole_tls_session.

(* the failure half, on whole connect calls, whatever login was asked for (Tls_Failures.v): AUTH TLS refused - the call
   returns the greeting and the refusal, the trace ends with the reply to AUTH TLS: no USER, no PASS, no handshake *)
Theorem C11_auth_refused_sends_nothing_more : forall w h p login s srest g r1 rs a,
  login_ok login ->
  w_open w = false -> w_script w = s :: srest -> s_reachable s = true -> c_tls (w_cfg w) = true ->
  r_now (s_greeting s) = [RReply g] -> r_close_after (s_greeting s) = false -> code g <> 421 -> code g <> 120 ->
  is_negative g = false ->
  s_reactions s = r1 :: rs -> simple_reaction r1 a -> is_negative a = true ->
  exists w', step w (AConnect h p login) = (OReturn (RvReplies [g; a]), w') /\
    insync w' rs /\ w_ssl w' = false /\ w_tls_up w' = false /\ w_cfg w' = w_cfg w /\
    skipn (length (w_trace w)) (w_trace w') =
      [ECtl (CConnect h p true)] ++ block (w_obs w) (OConnected h p) ++ [ERecv (w_ord w) g] ++ block (w_obs w) (OReply g) ++
      block (w_obs w) (ORequest AUTH_TLS) ++ [EWire false (S (w_ord w)) AUTH_TLS] ++ [ERecv (S (w_ord w)) a] ++
      block (w_obs w) (OReply a).
Proof. exact connect_auth_refused. Qed.
Print Assumptions C11_auth_refused_sends_nothing_more.

(* AUTH TLS accepted and the handshake fails (certificate refused, protocol error): the call throws, the trace ends with
   the failed handshake; and from then on every command is refused locally *)
Theorem C11_handshake_failure_sends_nothing_more : forall w h p login s srest g r1 rs a,
  login_ok login ->
  w_open w = false -> w_script w = s :: srest -> s_reachable s = true -> c_tls (w_cfg w) = true ->
  r_now (s_greeting s) = [RReply g] -> r_close_after (s_greeting s) = false -> code g <> 421 -> code g <> 120 ->
  is_negative g = false ->
  s_reactions s = r1 :: rs -> simple_reaction r1 a -> is_negative a = false -> r_tls_ok r1 = false ->
  exists w', step w (AConnect h p login) = (OThrow, w') /\
    w_tls_up w' = false /\ w_ssl w' = true /\ w_data w' = w_data w /\
    skipn (length (w_trace w)) (w_trace w') =
      [ECtl (CConnect h p true)] ++ block (w_obs w) (OConnected h p) ++ [ERecv (w_ord w) g] ++ block (w_obs w) (OReply g) ++
      block (w_obs w) (ORequest AUTH_TLS) ++ [EWire false (S (w_ord w)) AUTH_TLS] ++ [ERecv (S (w_ord w)) a] ++
      block (w_obs w) (OReply a) ++ [ECtl (CSetSsl true); ECtl (CHandshake false O)].
Proof. exact connect_handshake_fails. Qed.
Print Assumptions C11_handshake_failure_sends_nothing_more.

Theorem C11_after_failed_handshake_nothing_is_sent : forall w line, w_ssl w = true -> w_tls_up w = false -> do_send w line = None.
Proof. exact after_failed_handshake_nothing_is_sent. Qed.
Print Assumptions C11_after_failed_handshake_nothing_is_sent.

(* ------------------------------------------------------------------ every history, every state, every server *)
(* [gx w w']: w' is w with events added to the trace, none of which is a command line written in clear text - except
   the line AUTH TLS. [safe w]: the control connection is closed, or its socket object is a TLS socket (a write then
   fails or goes through the TLS layer). *)

(* one call: any call but logout, whatever the server does - nothing but AUTH TLS is written in clear text, and the
   connection is closed or secured again afterwards, unless the call is a connect() that came back with a negative
   reply or did not come back normally *)
Theorem C11_call_only_auth_tls_in_clear : forall a w, c_tls (w_cfg w) = true -> safe w -> a <> ALogout ->
  gx w (snd (step w a)) /\ (safe (snd (step w a)) \/ (is_connect a /\ bad_outcome (fst (step w a)))).
Proof. exact step_clear_text. Qed.
Print Assumptions C11_call_only_auth_tls_in_clear.

(* the logout call itself stays inside TLS (what follows a positive reply to REIN is outside the property's span) *)
Theorem C11_logout_call_inside_tls : forall w, safe w -> gx w (snd (step w ALogout)).
Proof. exact logout_clear_text. Qed.
Print Assumptions C11_logout_call_inside_tls.

(* every history without logout, from a fresh client or any state closed-or-secured, against every server: if the
   application never goes on after a connect() that was refused or failed, AUTH TLS is the only line ever written in
   clear text - USER, PASS and every other command of every call travel inside TLS *)
Theorem C11_history_only_auth_tls_in_clear : forall cs w, c_tls (w_cfg w) = true -> safe w ->
  Forall (fun a => a <> ALogout) cs ->
  (forall a o, In (a, o) (combine cs (fst (steps w cs))) -> is_connect a -> ~ bad_outcome o) ->
  gx w (snd (steps w cs)) /\ safe (snd (steps w cs)).
Proof. exact history_clear_text. Qed.
Print Assumptions C11_history_only_auth_tls_in_clear.

Example C11_history_example :
  let w0 := init_world (mkConfig Passive true TBinary true false) accepted_script in
  let cs := [AConnect [104%N] 21%N None; ALogin [117%N] [112%N]; ASimple [78;79;79;80]%N None] in
  safe w0 /\
  (forall a o, In (a, o) (combine cs (fst (steps w0 cs))) -> is_connect a -> ~ bad_outcome o) /\
  filter (fun e => match e with EWire false _ _ => true | _ => false end) (w_trace (snd (steps w0 cs))) = [EWire false 1 AUTH_TLS].
Proof. split; [apply init_safe|exact history_clear_text_example]. Qed.

(* REFUTED without that proviso - recorded finding tls/clear-text-session-after-refused-connect: AUTH TLS answered 530,
   connect() returns [220; 530] and leaves the connection open and unsecured; login() on the same client then writes
   USER and PASS in clear text although the client has a TLS context *)
Theorem C11_clear_text_after_refused_connect_refuted :
  let w0 := init_world (mkConfig Passive true TBinary true false) refused_script in
  let '(os, w) := steps w0 [AConnect [104%N] 21%N None; ALogin [117%N] [112%N]] in
  os = [OReturn (RvReplies [mkReply 220 []; mkReply 530 []]);
        OReturn (RvReplies [mkReply 331 []; mkReply 230 []; mkReply 200 []; mkReply 200 []; mkReply 200 []])] /\
  In (EWire false 2 (USER_ ++ [SP; 117%N])) (w_trace w) /\ In (EWire false 3 (PASS_ ++ [SP; 112%N])) (w_trace w).
Proof. exact clear_text_after_refused_auth_refuted. Qed.
Print Assumptions C11_clear_text_after_refused_connect_refuted.

(* ------------------------------------------------------------------ the data connections: every call, state and server *)
(* [okhs false tr]: in the events tr a call adds to the trace, every event that moves bytes on a data connection or touches
   sink, source or callback ([EIo]) happens after a SUCCESSFUL TLS handshake on the data connection object created last
   ([EData DNewObj] ... [EData (DHandshake _ true)]) - for EPSV, PASV, EPRT and PORT, downloads, uploads and listings,
   whatever the server answers *)
Theorem C11_data_payload_only_after_the_data_handshake : forall a w, c_tls (w_cfg w) = true ->
  exists tr, w_trace (snd (step w a)) = w_trace w ++ tr /\ okhs false tr.
Proof. exact step_data_inside_tls. Qed.
Print Assumptions C11_data_payload_only_after_the_data_handshake.

Theorem C11_payload_event_is_preceded_by_a_handshake : forall a w tr pre e post, c_tls (w_cfg w) = true ->
  w_trace (snd (step w a)) = w_trace w ++ tr -> tr = pre ++ EIo e :: post -> hsafter false pre = true.
Proof. exact payload_after_handshake. Qed.
Print Assumptions C11_payload_event_is_preceded_by_a_handshake.

Example C11_data_tls_example :
  let w0 := init_world (mkConfig Passive true TBinary true false) data_tls_script in
  let tr := w_trace (snd (steps w0 [AConnect [104%N] 21%N None; ADownload [102%N] None None])) in
  okhs false tr /\ (0 < length (filter (fun e => match e with EIo (IoNetRead _) => true | _ => false end) tr))%nat.
Proof. exact data_tls_example. Qed.
