(* Tls_Failures.v - C11, the failure half: with a TLS context configured, when AUTH TLS is refused or the handshake
   fails, nothing further is sent - in particular no credentials, whatever login was asked for - and the failure is
   reported (negative aggregate / exception). *)
From LibFtp Require Import Bytes Decimal Reply Endpoint Ascii DataConn DataConn_Proofs Client Client_Proofs Login_Proofs Transfer_Proofs Transfer_More.
Local Open Scope N_scope.

Definition login_ok (login : option (bytes * bytes)) : Prop :=
  match login with Some (u, pw) => has_crlf u = false /\ has_crlf pw = false | None => True end.

Lemma connect_checks login body w : login_ok login ->
  run (match login with Some (u, pw) => CheckArg u (CheckArg pw body) | None => body end) w = run body w.
Proof.
  destruct login as [[u pw]|]; [|reflexivity]. intros (Hu & Hpw). rewrite !run_checkarg, Hu, Hpw. reflexivity.
Qed.

Lemma run_ctlhandshake_fail k w : (w_last_tls_ok w && negb (w_peer_closed w)) = false ->
  run (CtlHandshake k) w = (OThrow, emit w [ECtl (CHandshake false O)]).
Proof. intros H. cbn [run]. rewrite H. reflexivity. Qed.

(* AUTH TLS refused: the call returns the greeting and the refusal (a negative aggregate); the whole trace of the call
   is: connect, greeting, AUTH TLS in clear, its reply - no USER, no PASS, no handshake; the socket stays plain *)
Theorem connect_auth_refused w h p login s srest g r1 rs a :
  login_ok login ->
  w_open w = false -> w_script w = s :: srest -> s_reachable s = true -> c_tls (w_cfg w) = true ->
  r_now (s_greeting s) = [RReply g] -> r_close_after (s_greeting s) = false -> code g <> 421 -> code g <> 120 ->
  is_negative g = false ->
  s_reactions s = r1 :: rs -> simple_reaction r1 a -> is_negative a = true ->
  exists w', step w (AConnect h p login) = (OReturn (RvReplies [g; a]), w') /\
    insync w' rs /\ w_ssl w' = false /\ w_tls_up w' = false /\ w_cfg w' = w_cfg w /\
    skipn (length (w_trace w)) (w_trace w') =
      [ECtl (CConnect h p true)] ++ block (w_obs w) (OConnected h p) ++ [ERecv (w_ord w) g] ++ block (w_obs w) (OReply g) ++
      block (w_obs w) (ORequest AUTH_TLS) ++ [EWire false (S (w_ord w)) AUTH_TLS] ++ [ERecv (S (w_ord w)) a] ++
      block (w_obs w) (OReply a).
Proof.
  intros Hl Ho Hscr Hre Htls Gn Gc G421 G120 Ng Hrs (R1n & R1c & R1a & R1x) Na.
  destruct w as [cfg f2 f3 f4 f5 f6 f7 f8 f9 f10 f11 f12 f13 f14 f15 f16 f17 f18 f19 f20].
  destruct cfg as [cm crfc cty ctls cres].
  cbn in Ho, Hscr, Htls. subst.
  destruct s as [sr s6 scl sg srs]. destruct sg as [gn goc gdp gca gtl gd]. cbn in Hre, Gn, Gc, Hrs. subst.
  destruct r1 as [n1 oc1 dp1 ca1 tl1 d1]. cbn in R1n, R1c, R1a. subst.
  apply N.eqb_neq in G120.
  rewrite step_connect_unfold. unfold op_connect. rewrite (connect_checks login _ _ Hl).
  erewrite run_ctlconnect; [| reflexivity | reflexivity | reflexivity].
  rewrite run_notify.
  rewrite (recv_reply _ _ f18 g []); [| reflexivity | reflexivity | exact G421].
  cbv beta. rewrite G120, Ng. rewrite run_getcfg. flat. unfold process_raw.
  erewrite (xchg_line AUTH_TLS _ _ _ _ a); [| repeat split; auto | reflexivity | repeat split; auto].
  cbv beta. rewrite Na. rewrite run_ret.
  eexists. split; [reflexivity|].
  split. { unfold insync, ready. cbn. destruct dp1; auto. }
  split; [reflexivity|]. split; [reflexivity|]. split; [reflexivity|].
  unfold block. cbn. rewrite <- !app_assoc, skipn_app_len. reflexivity.
Qed.

(* AUTH TLS accepted but the handshake fails (bad certificate, protocol error, peer gone): the call throws; after the
   reply to AUTH TLS the trace only shows the switch to TLS and the failed handshake - no USER, no PASS *)
Theorem connect_handshake_fails w h p login s srest g r1 rs a :
  login_ok login ->
  w_open w = false -> w_script w = s :: srest -> s_reachable s = true -> c_tls (w_cfg w) = true ->
  r_now (s_greeting s) = [RReply g] -> r_close_after (s_greeting s) = false -> code g <> 421 -> code g <> 120 ->
  is_negative g = false ->
  s_reactions s = r1 :: rs -> simple_reaction r1 a -> is_negative a = false -> r_tls_ok r1 = false ->
  exists w', step w (AConnect h p login) = (OThrow, w') /\
    w_tls_up w' = false /\ w_ssl w' = true /\ w_data w' = w_data w /\
    skipn (length (w_trace w)) (w_trace w') =
      [ECtl (CConnect h p true)] ++ block (w_obs w) (OConnected h p) ++ [ERecv (w_ord w) g] ++ block (w_obs w) (OReply g) ++
      block (w_obs w) (ORequest AUTH_TLS) ++ [EWire false (S (w_ord w)) AUTH_TLS] ++ [ERecv (S (w_ord w)) a] ++
      block (w_obs w) (OReply a) ++ [ECtl (CSetSsl true); ECtl (CHandshake false O)].
Proof.
  intros Hl Ho Hscr Hre Htls Gn Gc G421 G120 Ng Hrs (R1n & R1c & R1a & R1x) Na Tok.
  destruct w as [cfg f2 f3 f4 f5 f6 f7 f8 f9 f10 f11 f12 f13 f14 f15 f16 f17 f18 f19 f20].
  destruct cfg as [cm crfc cty ctls cres].
  cbn in Ho, Hscr, Htls. subst.
  destruct s as [sr s6 scl sg srs]. destruct sg as [gn goc gdp gca gtl gd]. cbn in Hre, Gn, Gc, Hrs. subst.
  destruct r1 as [n1 oc1 dp1 ca1 tl1 d1]. cbn in R1n, R1c, R1a, Tok. subst.
  apply N.eqb_neq in G120.
  rewrite step_connect_unfold. unfold op_connect. rewrite (connect_checks login _ _ Hl).
  erewrite run_ctlconnect; [| reflexivity | reflexivity | reflexivity].
  rewrite run_notify.
  rewrite (recv_reply _ _ f18 g []); [| reflexivity | reflexivity | exact G421].
  cbv beta. rewrite G120, Ng. rewrite run_getcfg. flat. unfold process_raw.
  erewrite (xchg_line AUTH_TLS _ _ _ _ a); [| repeat split; auto | reflexivity | repeat split; auto].
  cbv beta. rewrite Na. rewrite run_ctlsetssl.
  rewrite run_ctlhandshake_fail by reflexivity.
  eexists. split; [reflexivity|].
  split; [reflexivity|]. split; [reflexivity|]. split; [reflexivity|].
  unfold block. cbn. rewrite <- !app_assoc, skipn_app_len. reflexivity.
Qed.

(* ... and once a handshake has failed, every later command of the session is refused locally: nothing reaches the wire *)
Theorem after_failed_handshake_nothing_is_sent w line : w_ssl w = true -> w_tls_up w = false -> do_send w line = None.
Proof.
  intros Hs Hu. unfold do_send.
  change (w_open (notify w (ORequest line))) with (w_open w).
  change (w_ssl (notify w (ORequest line))) with (w_ssl w).
  change (w_tls_up (notify w (ORequest line))) with (w_tls_up w).
  rewrite Hs, Hu. destruct (w_open w); reflexivity.
Qed.
