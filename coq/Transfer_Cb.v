(* Transfer_Cb.v - C12 at the level of whole API calls: transfers that are given a callback (passive modes, no TLS).
   The data loop's own theorems (begin / notify / end bracket, cancellation polled after every block) are in
   DataConn_Proofs.v; here they are composed with the protocol steps around the loop. *)
From LibFtp Require Import Bytes Decimal Reply Endpoint Ascii DataConn DataConn_Proofs Client Client_Proofs Login_Proofs Transfer_Proofs Transfer_More.
Local Open Scope N_scope.

Ltac passive_setup crfc Tgt N1 Reach x1 :=
  let P := fresh "P1" in let a := fresh "a" in
  destruct crfc; cbn [setup_line c_rfc2428];
  [ destruct Tgt as (P & ->);
    erewrite (xchg EPSV_ None _ _ _ _ x1); [| repeat split; auto | reflexivity | repeat split; auto | exact I]
  | destruct Tgt as (a & P & ->);
    erewrite (xchg PASV_ None _ _ _ _ x1); [| repeat split; auto | reflexivity | repeat split; auto | exact I] ];
  cbv beta; rewrite N1, P; cbv beta iota;
  rewrite run_dnew; rewrite run_dconnect by exact Reach.

(* a download with a callback that never asks for cancellation: the call completes exactly like one without a callback,
   and what the callback and the sink saw is the data loop's event list followed by the last (negative) poll *)
Theorem download_callback_passive_complete w path answers answers' answers'' ev r1 r2 rest x1 x2 x3 ip port :
  insync w (r1 :: r2 :: rest) -> w_data w = None ->
  c_mode (w_cfg w) = Passive -> c_tls (w_cfg w) = false ->
  has_crlf path = false ->
  simple_reaction r1 x1 -> is_negative x1 = false -> passive_target (w_cfg w) x1 ip port ->
  dp_reachable (r_data r1) = true ->
  accepts_transfer r2 x2 x3 ->
  data_recv (c_type (w_cfg w)) (mkSink None O) (dp_segs (r_data r2)) (dp_end (r_data r2)) (Some answers) = (ev, PDone, Some answers') ->
  poll answers' = (false, answers'') ->
  exists w', step w (ADownload path (Some answers) None) = (OReturn (RvReplies [x1; x2; x3]), w') /\
    insync w' rest /\ w_data w' = None /\ w_cfg w' = w_cfg w /\
    io_events (skipn (length (w_trace w)) (w_trace w')) = ev ++ [IoPoll false] /\
    wire_events (skipn (length (w_trace w)) (w_trace w')) =
      [WLine (setup_line (w_cfg w)); WReply x1; WLine (RETR_ ++ SP :: path); WReply x2; WReply x3] /\
    data_events (skipn (length (w_trace w)) (w_trace w')) =
      [DNewObj; DConnectTo ip port true; DTcpShutdown; DClose].
Proof.
  intros ((Ho & Hs & Hpc & Hb) & Hp & Hc) Hd Hm Htls Hpath (R1n & R1c & R1a & R1x) N1 Tgt Reach
         (R2n & R2c & R2a & N2 & X2 & X3) DR PL.
  destruct w as [cfg f2 f3 f4 f5 f6 f7 f8 f9 f10 f11 f12 f13 f14 f15 f16 f17 f18 f19 f20].
  destruct cfg as [cm crfc cty ctls cres].
  cbn in Ho, Hs, Hpc, Hb, Hp, Hc, Hd, Hm, Htls, Tgt, DR. subst.
  destruct r1 as [n1 oc1 dp1 ca1 tl1 d1]. destruct r2 as [n2 oc2 dp2 ca2 tl2 d2].
  cbn in R1n, R1c, R1a, Reach, R2n, R2c, R2a, DR. subst.
  rewrite step_download_unfold. unfold op_download.
  rewrite run_checkarg, Hpath, run_scope.
  unfold create_data_connection. rewrite run_getcfg. flat.
  passive_setup crfc Tgt N1 Reach x1.
  all: erewrite (xchg RETR_ (Some path) _ _ _ _ x2); [| repeat split; auto | reflexivity | repeat split; auto | exact Hpath].
  all: cbv beta; rewrite N2; cbv beta iota.
  all: rewrite (run_pumpin _ _ ev PDone (Some answers')); [| exact DR | discriminate].
  all: unfold finish_transfer; rewrite (run_poll_some _ _ answers' false answers''); [| reflexivity | exact PL].
  all: cbv beta iota.
  all: rewrite (run_ddisconnect true _ _ (mkD true false false)) by reflexivity.
  all: rewrite (recv_reply _ _ (S f18) x3 []); [| reflexivity | cbn; rewrite !Hdp; reflexivity | exact X3].
  all: rewrite run_ret.
  all: eexists; split; [reflexivity|].
  all: split; [unfold insync, ready; cbn; rewrite Hs; auto|].
  all: split; [reflexivity|]; split; [reflexivity|].
  all: trace_facts; auto.
Qed.

(* the same for an upload *)
Theorem upload_callback_passive_complete w u path chunks answers answers' answers'' ev r1 r2 rest x1 x2 x3 ip port :
  insync w (r1 :: r2 :: rest) -> w_data w = None ->
  c_mode (w_cfg w) = Passive -> c_tls (w_cfg w) = false ->
  has_crlf path = false ->
  simple_reaction r1 x1 -> is_negative x1 = false -> passive_target (w_cfg w) x1 ip port ->
  dp_reachable (r_data r1) = true ->
  accepts_transfer r2 x2 x3 ->
  data_send (c_type (w_cfg w)) block_size chunks (Some answers) = (ev, PDone, Some answers') ->
  poll answers' = (false, answers'') ->
  exists w', step w (AUpload u path chunks (Some answers)) = (OReturn (RvReplies [x1; x2; x3]), w') /\
    insync w' rest /\ w_data w' = None /\ w_cfg w' = w_cfg w /\
    io_events (skipn (length (w_trace w)) (w_trace w')) = ev ++ [IoPoll false] /\
    wire_events (skipn (length (w_trace w)) (w_trace w')) =
      [WLine (setup_line (w_cfg w)); WReply x1; WLine (upverb_bytes u ++ SP :: path); WReply x2; WReply x3] /\
    data_events (skipn (length (w_trace w)) (w_trace w')) =
      [DNewObj; DConnectTo ip port true; DTcpShutdown; DClose].
Proof.
  intros ((Ho & Hs & Hpc & Hb) & Hp & Hc) Hd Hm Htls Hpath (R1n & R1c & R1a & R1x) N1 Tgt Reach
         (R2n & R2c & R2a & N2 & X2 & X3) DS PL.
  destruct w as [cfg f2 f3 f4 f5 f6 f7 f8 f9 f10 f11 f12 f13 f14 f15 f16 f17 f18 f19 f20].
  destruct cfg as [cm crfc cty ctls cres].
  cbn in Ho, Hs, Hpc, Hb, Hp, Hc, Hd, Hm, Htls, Tgt, DS. subst.
  destruct r1 as [n1 oc1 dp1 ca1 tl1 d1]. destruct r2 as [n2 oc2 dp2 ca2 tl2 d2].
  cbn in R1n, R1c, R1a, Reach, R2n, R2c, R2a. subst.
  rewrite step_upload_unfold. unfold op_upload.
  rewrite run_checkarg, Hpath, run_scope.
  unfold create_data_connection. rewrite run_getcfg. flat.
  passive_setup crfc Tgt N1 Reach x1.
  all: erewrite (xchg (upverb_bytes u) (Some path) _ _ _ _ x2); [| repeat split; auto | reflexivity | repeat split; auto | exact Hpath].
  all: cbv beta; rewrite N2; cbv beta iota.
  all: rewrite (run_pumpout _ _ ev PDone (Some answers')); [| exact DS | discriminate].
  all: unfold finish_transfer; rewrite (run_poll_some _ _ answers' false answers''); [| reflexivity | exact PL].
  all: cbv beta iota.
  all: rewrite (run_ddisconnect true _ _ (mkD true false false)) by reflexivity.
  all: rewrite (recv_reply _ _ (S f18) x3 []); [| reflexivity | cbn; rewrite !Hdp; reflexivity | exact X3].
  all: rewrite run_ret.
  all: eexists; split; [reflexivity|].
  all: split; [unfold insync, ready; cbn; rewrite Hs; auto|].
  all: split; [reflexivity|]; split; [reflexivity|].
  all: trace_facts; auto.
Qed.

(* an upload cancelled by the callback while in progress: ABOR, its two replies (426, then the reply to ABOR), the data
   socket closed without the graceful shutdown, the session in step *)
Theorem upload_cancelled_passive w u path chunks answers answers' answers'' ev r1 r2 r3 rest x1 x2 x4 x5 ip port pr :
  insync w (r1 :: r2 :: r3 :: rest) -> w_data w = None ->
  c_mode (w_cfg w) = Passive -> c_tls (w_cfg w) = false ->
  has_crlf path = false ->
  simple_reaction r1 x1 -> is_negative x1 = false -> passive_target (w_cfg w) x1 ip port ->
  dp_reachable (r_data r1) = true ->
  simple_reaction r2 x2 -> is_negative x2 = false ->
  data_send (c_type (w_cfg w)) block_size chunks (Some answers) = (ev, pr, Some answers') ->
  pr <> PThrow -> poll answers' = (true, answers'') ->
  r_now r3 = [RReply x4; RReply x5] -> r_on_close r3 = [] -> r_close_after r3 = false ->
  code x4 = 426 -> code x5 <> 421 ->
  exists w', step w (AUpload u path chunks (Some answers)) = (OReturn (RvReplies [x1; x2; x4; x5]), w') /\
    insync w' rest /\ w_data w' = None /\ w_cfg w' = w_cfg w /\
    wire_events (skipn (length (w_trace w)) (w_trace w')) =
      [WLine (setup_line (w_cfg w)); WReply x1; WLine (upverb_bytes u ++ SP :: path); WReply x2; WLine ABOR_; WReply x4; WReply x5] /\
    data_events (skipn (length (w_trace w)) (w_trace w')) = [DNewObj; DConnectTo ip port true; DClose] /\
    io_events (skipn (length (w_trace w)) (w_trace w')) = ev ++ [IoPoll true].
Proof.
  intros ((Ho & Hs & Hpc & Hb) & Hp & Hc) Hd Hm Htls Hpath (R1n & R1c & R1a & R1x) N1 Tgt Reach
         (R2n & R2c & R2a & X2) N2 DS NT PL R3n R3c R3a X4 X5.
  destruct w as [cfg f2 f3 f4 f5 f6 f7 f8 f9 f10 f11 f12 f13 f14 f15 f16 f17 f18 f19 f20].
  destruct cfg as [cm crfc cty ctls cres].
  cbn in Ho, Hs, Hpc, Hb, Hp, Hc, Hd, Hm, Htls, Tgt, DS. subst.
  destruct r1 as [n1 oc1 dp1 ca1 tl1 d1]. destruct r2 as [n2 oc2 dp2 ca2 tl2 d2]. destruct r3 as [n3 oc3 dp3 ca3 tl3 d3].
  cbn in R1n, R1c, R1a, Reach, R2n, R2c, R2a, R3n, R3c, R3a. subst.
  assert (X4' : code x4 <> 421) by (rewrite X4; discriminate).
  assert (E426 : (code x4 =? 426) = true) by (apply N.eqb_eq; exact X4).
  rewrite step_upload_unfold. unfold op_upload.
  rewrite run_checkarg, Hpath, run_scope.
  unfold create_data_connection. rewrite run_getcfg. flat.
  passive_setup crfc Tgt N1 Reach x1.
  all: erewrite (xchg (upverb_bytes u) (Some path) _ _ _ _ x2); [| repeat split; auto | reflexivity | repeat split; auto | exact Hpath].
  all: cbv beta; rewrite N2; cbv beta iota.
  all: rewrite (run_pumpout _ _ ev pr (Some answers')); [| exact DS | exact NT].
  all: unfold finish_transfer; rewrite (run_poll_some _ _ answers' true answers''); [| reflexivity | exact PL].
  all: cbv beta iota; unfold process_abort, process_command.
  all: rewrite run_send_none; [| reflexivity | exact Hs | reflexivity].
  all: rewrite (recv_reply _ _ (S (S f18)) x4 [(S (S f18), RReply x5)]); [| reflexivity | cbn; rewrite ?Hdp; reflexivity | exact X4'].
  all: cbv beta; rewrite E426.
  all: rewrite (recv_reply _ _ (S (S f18)) x5 []); [| reflexivity | reflexivity | exact X5].
  all: cbv beta.
  all: rewrite (run_ddisconnect_ng _ _ (mkD true false false)) by reflexivity.
  all: rewrite run_ret.
  all: eexists; split; [reflexivity|].
  all: split; [unfold insync, ready; cbn; rewrite Hs; destruct dp1, dp2, dp3; auto|].
  all: split; [reflexivity|]; split; [reflexivity|].
  all: trace_facts; auto.
Qed.

(* C12 on the whole call: what the callback sees of a completed download is: one negative poll, begin, the blocks
   (no further begin / end, no positive poll among them), end, and the final negative poll of the client *)
Theorem download_with_callback_brackets w path answers answers' answers'' ev r1 r2 rest x1 x2 x3 ip port :
  insync w (r1 :: r2 :: rest) -> w_data w = None ->
  c_mode (w_cfg w) = Passive -> c_tls (w_cfg w) = false ->
  has_crlf path = false ->
  simple_reaction r1 x1 -> is_negative x1 = false -> passive_target (w_cfg w) x1 ip port ->
  dp_reachable (r_data r1) = true ->
  accepts_transfer r2 x2 x3 ->
  data_recv (c_type (w_cfg w)) (mkSink None O) (dp_segs (r_data r2)) (dp_end (r_data r2)) (Some answers) = (ev, PDone, Some answers') ->
  poll answers' = (false, answers'') ->
  exists w' body, step w (ADownload path (Some answers) None) = (OReturn (RvReplies [x1; x2; x3]), w') /\
    io_events (skipn (length (w_trace w)) (w_trace w')) = IoPoll false :: IoBegin :: body ++ [IoEnd; IoPoll false] /\
    count_ev is_begin body = O /\ count_ev is_end body = O /\ count_ev is_poll_true body = O.
Proof.
  intros Hi Hd Hm Ht Hp R1 N1 Tg Re Ac DR PL.
  destruct (download_callback_passive_complete w path answers answers' answers'' ev r1 r2 rest x1 x2 x3 ip port
              Hi Hd Hm Ht Hp R1 N1 Tg Re Ac DR PL) as (w' & E & _ & _ & _ & IO & _).
  pose proof (callback_recv _ _ _ _ _ _ _ _ DR) as CR.
  assert (B : exists body, ev = IoPoll false :: IoBegin :: body ++ [IoEnd] /\
              count_ev is_begin body = O /\ count_ev is_end body = O /\ count_ev is_poll_true body = O).
  { destruct answers as [|[|] tl].
    - destruct CR as (body & -> & B1 & B2 & _ & B4). exists body. auto.
    - destruct CR as (_ & X). discriminate X.
    - destruct CR as (body & -> & B1 & B2 & _ & B4). exists body. auto. }
  destruct B as (body & -> & B1 & B2 & B3).
  exists w', body. split; [exact E|]. split; [|auto].
  rewrite IO. cbn [app]. rewrite <- app_assoc. reflexivity.
Qed.

(* ... and of a completed upload *)
Theorem upload_with_callback_brackets w u path chunks answers answers' answers'' ev r1 r2 rest x1 x2 x3 ip port :
  insync w (r1 :: r2 :: rest) -> w_data w = None ->
  c_mode (w_cfg w) = Passive -> c_tls (w_cfg w) = false ->
  has_crlf path = false ->
  simple_reaction r1 x1 -> is_negative x1 = false -> passive_target (w_cfg w) x1 ip port ->
  dp_reachable (r_data r1) = true ->
  accepts_transfer r2 x2 x3 ->
  data_send (c_type (w_cfg w)) block_size chunks (Some answers) = (ev, PDone, Some answers') ->
  poll answers' = (false, answers'') ->
  exists w' body, step w (AUpload u path chunks (Some answers)) = (OReturn (RvReplies [x1; x2; x3]), w') /\
    io_events (skipn (length (w_trace w)) (w_trace w')) = IoPoll false :: IoBegin :: body ++ [IoEnd; IoPoll false] /\
    count_ev is_begin body = O /\ count_ev is_end body = O /\ count_ev is_poll_true body = O /\
    notified body = length (net_out_bytes body).
Proof.
  intros Hi Hd Hm Ht Hp R1 N1 Tg Re Ac DS PL.
  destruct (upload_callback_passive_complete w u path chunks answers answers' answers'' ev r1 r2 rest x1 x2 x3 ip port
              Hi Hd Hm Ht Hp R1 N1 Tg Re Ac DS PL) as (w' & E & _ & _ & _ & IO & _).
  pose proof (callback_send _ _ _ _ _ _ _ DS) as CS.
  assert (B : exists body, ev = IoPoll false :: IoBegin :: body ++ [IoEnd] /\
              count_ev is_begin body = O /\ count_ev is_end body = O /\ count_ev is_poll_true body = O /\
              notified body = length (net_out_bytes body)).
  { assert (G : forall body, ev = IoPoll false :: IoBegin :: body ++ [IoEnd] -> notified ev = length (net_out_bytes ev) ->
                notified body = length (net_out_bytes body)).
    { intros body -> Hn. cbn in Hn. rewrite notified_app, net_out_app in Hn. cbn in Hn.
      rewrite app_nil_r, Nat.add_0_r in Hn. exact Hn. }
    destruct answers as [|[|] tl].
    - destruct CS as (body & E1 & B1 & B2 & Nn & _ & B4 & _). exists body. repeat split; auto.
    - destruct CS as (_ & X). discriminate X.
    - destruct CS as (body & E1 & B1 & B2 & Nn & _ & B4 & _). exists body. repeat split; auto. }
  destruct B as (body & -> & B1 & B2 & B3 & B4).
  exists w', body. split; [exact E|]. split; [|auto].
  rewrite IO. cbn [app]. rewrite <- app_assoc. reflexivity.
Qed.
