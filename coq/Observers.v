(* Observers.v - model of for_each_observer (src/client.cpp, after "fix: allow observers to be unregistered from inside a
   callback"): one notification round goes through a COPY of the list of registered observers and tells each one that
   is still registered at its turn. What an observer does when it is told is a parameter: the observers it unregisters
   (itself possibly among them). Observers are numbers; the list may hold one observer several times (add_observer does
   not check), remove_observer drops every occurrence (std::list::remove). *)
From Coq Require Import List Arith Bool Lia.
Import ListNotations.

Section Round.
Variable react : nat -> list nat.          (* told, observer o calls remove_observer for each of [react o] *)

Definition unregister (gone : list nat) (live : list nat) : list nat :=
  filter (fun o => negb (existsb (Nat.eqb o) gone)) live.

(* [copy]: what is left of the snapshot; [live]: observers_ now. Result: who was told, in order, and observers_ after *)
Fixpoint round (copy live : list nat) : list nat * list nat :=
  match copy with
  | [] => ([], live)
  | o :: rest =>
      if existsb (Nat.eqb o) live
      then let '(told, live') := round rest (unregister (react o) live) in (o :: told, live')
      else round rest live
  end.

Definition notify_round (live : list nat) : list nat * list nat := round live live.

Lemma in_existsb o l : existsb (Nat.eqb o) l = true <-> In o l.
Proof.
  rewrite existsb_exists. split.
  - intros (x & Hx & E). apply Nat.eqb_eq in E. subst. exact Hx.
  - intro H. exists o. split; [exact H|apply Nat.eqb_refl].
Qed.

Lemma unregister_sub gone live o : In o (unregister gone live) -> In o live /\ ~ In o gone.
Proof.
  unfold unregister. rewrite filter_In. intros (H & N). split; [exact H|].
  intro G. apply in_existsb in G. rewrite G in N. discriminate.
Qed.

(* whoever is told was registered when the round began and still registered at its turn; the told list is the snapshot
   with some members left out - order (registration order, duplicates included) is kept *)
Inductive sublist : list nat -> list nat -> Prop :=
| sl_nil : sublist [] []
| sl_keep x a b : sublist a b -> sublist (x :: a) (x :: b)
| sl_skip x a b : sublist a b -> sublist a (x :: b).

Theorem told_is_a_sublist : forall copy live, sublist (fst (round copy live)) copy.
Proof.
  induction copy as [|o rest IH]; intro live; cbn [round].
  - constructor.
  - destruct (existsb (Nat.eqb o) live).
    + specialize (IH (unregister (react o) live)). destruct (round rest (unregister (react o) live)) as [t l].
      cbn [fst] in *. constructor. exact IH.
    + constructor. apply IH.
Qed.

Theorem live_only_shrinks : forall copy live o, In o (snd (round copy live)) -> In o live.
Proof.
  induction copy as [|x rest IH]; intros live o H; cbn [round] in H; [exact H|].
  destruct (existsb (Nat.eqb x) live).
  - specialize (IH (unregister (react x) live) o).
    destruct (round rest (unregister (react x) live)) as [t l]. cbn [snd] in *.
    apply unregister_sub in IH; [tauto|exact H].
  - apply IH. exact H.
Qed.

(* an observer that is not registered (any more) is not told: in particular one unregistered by an observer told before
   it in the same round - or by itself - receives nothing further in that round *)
Theorem not_registered_not_told : forall copy live o, ~ In o live -> ~ In o (fst (round copy live)).
Proof.
  induction copy as [|x rest IH]; intros live o N; cbn [round]; [intros []|].
  destruct (existsb (Nat.eqb x) live) eqn:E.
  - assert (N' : ~ In o (unregister (react x) live)) by (intro H; apply unregister_sub in H; tauto).
    specialize (IH _ _ N'). destruct (round rest (unregister (react x) live)) as [t l]. cbn [fst] in *.
    intros [<-|H]; [apply in_existsb in E; tauto|tauto].
  - apply IH. exact N.
Qed.

Corollary unregistered_in_the_round_gets_nothing_further : forall a rest live o,
  In a live -> In o (react a) ->
  ~ In o (fst (round rest (unregister (react a) live))).
Proof.
  intros a rest live o _ Ho. apply not_registered_not_told.
  intro H. apply unregister_sub in H. tauto.
Qed.

(* every observer of the snapshot that nobody unregisters is told *)
Theorem registered_throughout_is_told : forall copy live o,
  In o copy -> In o live -> (forall x, In x copy -> ~ In o (react x)) -> In o (fst (round copy live)).
Proof.
  induction copy as [|x rest IH]; intros live o Hc Hl Hn; [destruct Hc|].
  cbn [round]. destruct (existsb (Nat.eqb x) live) eqn:E.
  - assert (Hl' : In o (unregister (react x) live)).
    { unfold unregister. apply filter_In. split; [exact Hl|].
      destruct (existsb (Nat.eqb o) (react x)) eqn:G; [|reflexivity].
      apply in_existsb in G. exfalso. apply (Hn x); [left; reflexivity|exact G]. }
    destruct Hc as [->|Hc].
    + destruct (round rest (unregister (react o) live)) as [t l]. left. reflexivity.
    + specialize (IH (unregister (react x) live) o Hc Hl' (fun y Hy => Hn y (or_intror Hy))).
      destruct (round rest (unregister (react x) live)) as [t l]. right. exact IH.
  - destruct Hc as [->|Hc].
    + apply in_existsb in Hl. rewrite Hl in E. discriminate.
    + apply IH; [exact Hc|exact Hl|intros y Hy; apply Hn; right; exact Hy].
Qed.
End Round.

(* observers that do nothing but listen: the round tells every registered observer once per registration, in order -
   this is [notify] of Client.v (the model of the protocol core, where callbacks do not call back into the client) *)
Theorem passive_observers_all_told : forall live, notify_round (fun _ => []) live = (live, live).
Proof.
  intro live. unfold notify_round.
  assert (G : forall copy l, (forall o, In o copy -> In o l) -> round (fun _ => []) copy l = (copy, l)).
  { induction copy as [|o rest IH]; intros l H; [reflexivity|].
    cbn [round]. assert (E : existsb (Nat.eqb o) l = true) by (apply in_existsb, H; left; reflexivity).
    rewrite E. assert (U : forall m, unregister [] m = m).
    { unfold unregister. cbn. induction m as [|y m IHm]; [reflexivity|]. cbn. f_equal. exact IHm. }
    rewrite U, IH; [reflexivity|]. intros y Hy. apply H. right. exact Hy. }
  apply G. auto.
Qed.
