(* C15 - reply classes partition the codes; aggregates are positive iff all members are.
   This file contains only the property theorems; each is closed by an already proved lemma. *)
From LibFtp Require Import Bytes Reply Reply_Proofs.
Local Open Scope N_scope.

(* every reply that carries a code (any 16-bit value but the 'unspecified' sentinel 65535) is exactly
   one of positive (< 400) / negative (>= 400); intermediate (300..399) is a subset of positive;
   the text plays no role *)
Theorem C15_classes_partition : forall c t, c <> unspecified ->
  let r := mkReply c t in
  (is_positive r = true <-> c < 400) /\
  (is_negative r = true <-> 400 <= c) /\
  (is_positive r = negb (is_negative r)) /\
  (is_intermediate r = true <-> 300 <= c < 400) /\
  (is_intermediate r = true -> is_positive r = true).
Proof. intros c t H. exact (classes_partition_code c H). Qed.
Print Assumptions C15_classes_partition.

Theorem C15_default_reply_has_no_class :
  is_positive default_reply = false /\ is_negative default_reply = false /\
  is_intermediate default_reply = false.
Proof. exact default_reply_no_class. Qed.
Print Assumptions C15_default_reply_has_no_class.

(* for every sequence of replies: members in arrival order, positive iff non-empty and all
   positive, status text = texts joined by CR LF *)
Theorem C15_aggregate : forall l : list reply,
  members (append_all l) = l /\
  agg_positive (append_all l) = (match l with [] => false | _ => forallb is_positive l end) /\
  agg_text (append_all l) = join [CR; LF] (map text l).
Proof. exact aggregate_spec. Qed.
Print Assumptions C15_aggregate.

(* non-vacuity: a mixed aggregate with an empty text *)
Example C15_example :
  let l := [mkReply 150 [49]; mkReply 550 []; mkReply 226 [50]] in
  agg_positive (append_all l) = false /\ agg_text (append_all l) = [49; 13; 10; 13; 10; 50].
Proof. vm_compute. split; reflexivity. Qed.
