(* Global_Proofs.v - statements about EVERY history of API calls, from EVERY state of the client and the peer: no
   hypothesis on what the server answers, on the configuration, on whether calls succeed. *)
From LibFtp Require Import Bytes Decimal Reply Endpoint Ascii DataConn DataConn_Proofs Client Client_Proofs.
Local Open Scope N_scope.

Definition clean_item (x : wire_item) : Prop := match x with WLine l => has_crlf l = false | WReply _ => True end.

Lemma step_trace_clean a w : api_verb_clean a ->
  exists new, w_trace (snd (step w a)) = w_trace w ++ new /\ Forall clean_item (wire_events new).
Proof.
  intro Hv.
  assert (G : exists new, w_trace (snd (run (prog_of a) (set_io w (io_of a)))) = w_trace w ++ new /\ Forall clean_item (wire_events new)).
  { destruct (one_line_per_step a (set_io w (io_of a)) Hv) as (new & T & C). exists new. split; [exact T|exact C]. }
  destruct a; try exact G; cbn [step snd]; exists []; rewrite app_nil_r; split; try reflexivity; constructor.
Qed.

(* C09 over histories: whatever the calls, the state and the server, every command line the client ever writes is one
   line - no CR, no LF inside: no caller text can make it write a second command *)
Theorem history_lines_clean : forall cs w, Forall api_verb_clean cs ->
  exists new, w_trace (snd (steps w cs)) = w_trace w ++ new /\ Forall clean_item (wire_events new).
Proof.
  induction cs as [|a cs IH]; intros w Hc.
  - exists []. rewrite app_nil_r. split; [reflexivity|constructor].
  - inversion Hc as [|? ? Ha Hcs]; subst.
    destruct (step_trace_clean a w Ha) as (n1 & T1 & C1).
    cbn [steps]. destruct (step w a) as [o w1] eqn:St. cbn [snd] in T1.
    destruct o.
    + destruct (IH w1 Hcs) as (n2 & T2 & C2). destruct (steps w1 cs) as [os w2]. cbn [snd] in *.
      exists (n1 ++ n2). rewrite T2, T1, app_assoc. split; [reflexivity|].
      rewrite wire_events_app. apply Forall_app. split; assumption.
    + destruct (IH w1 Hcs) as (n2 & T2 & C2). destruct (steps w1 cs) as [os w2]. cbn [snd] in *.
      exists (n1 ++ n2). rewrite T2, T1, app_assoc. split; [reflexivity|].
      rewrite wire_events_app. apply Forall_app. split; assumption.
    + cbn [snd]. exists n1. split; [exact T1|exact C1].
Qed.
