(* Moves_Global.v - C07 / C12 over EVERY transfer call, every state and every behaviour of the server: the caller's sink,
   source and transfer callback are touched only while the most recent reply read from the control connection is a
   non-negative one. In particular nothing of them is touched after a refusal (a negative reply to EPSV / PASV / EPRT /
   PORT or to the transfer command), whatever the server does next. *)
From LibFtp Require Import Bytes Decimal Reply Endpoint DataConn Client Client_Proofs.
Local Open Scope N_scope.

Definition okl (last : option reply) : Prop := exists r, last = Some r /\ is_negative r = false.

(* every callback / sink / source / data-socket transfer event ([EIo]) of a trace happens while the most recent reply
   ([ERecv]) is non-negative; [last] is the most recent reply before the trace *)
Fixpoint okio (last : option reply) (tr : list event) : Prop :=
  match tr with
  | [] => True
  | ERecv _ r :: tr' => okio (Some r) tr'
  | EIo _ :: tr' => okl last /\ okio last tr'
  | _ :: tr' => okio last tr'
  end.

Fixpoint lastr (last : option reply) (tr : list event) : option reply :=
  match tr with
  | [] => last
  | ERecv _ r :: tr' => lastr (Some r) tr'
  | _ :: tr' => lastr last tr'
  end.

Lemma okio_app last a b : okio last (a ++ b) <-> okio last a /\ okio (lastr last a) b.
Proof.
  revert last. induction a as [|e a IH]; intro last; cbn [app okio lastr].
  - tauto.
  - destruct e; cbn [okio lastr]; rewrite ?IH; tauto.
Qed.

Lemma lastr_app last a b : lastr last (a ++ b) = lastr (lastr last a) b.
Proof. revert last. induction a as [|e a IH]; intro last; cbn [app lastr]; [reflexivity|]. destruct e; apply IH. Qed.

Definition quiet (e : event) : Prop := match e with ERecv _ _ | EIo _ => False | _ => True end.

Lemma quiet_ok last es : Forall quiet es -> okio last es /\ lastr last es = last.
Proof.
  induction 1 as [|e es Q _ IH]; [split; [exact I|reflexivity]|].
  destruct e; cbn [okio lastr]; try exact IH; destruct Q.
Qed.

Lemma io_ok last ev : okl last -> okio last (map EIo ev) /\ lastr last (map EIo ev) = last.
Proof.
  intro L. induction ev as [|e ev IH]; [split; [exact I|reflexivity]|].
  cbn [map okio lastr]. destruct IH as (A & B). split; [split; assumption|exact B].
Qed.

Lemma q_obs obs e : Forall quiet (map (fun o => EObs o e) obs).
Proof. induction obs as [|o obs IH]; cbn; constructor; [exact I|exact IH]. Qed.

(* [G last w w' last']: w' is w with a well-placed trace added, after which the most recent reply is last' *)
Definition G (last : option reply) (w w' : world) (last' : option reply) : Prop :=
  exists tr, w_trace w' = w_trace w ++ tr /\ okio last tr /\ lastr last tr = last'.
Definition Gx (last : option reply) (w w' : world) : Prop :=
  exists tr, w_trace w' = w_trace w ++ tr /\ okio last tr.

Lemma G_refl last w : G last w w last.
Proof. exists []. rewrite app_nil_r. repeat split. Qed.
Lemma Gx_refl last w : Gx last w w.
Proof. exists []. rewrite app_nil_r. repeat split. Qed.

Lemma G_trans l0 a l1 b l2 c : G l0 a b l1 -> G l1 b c l2 -> G l0 a c l2.
Proof.
  intros (t1 & E1 & O1 & L1) (t2 & E2 & O2 & L2). exists (t1 ++ t2). rewrite E2, E1, app_assoc. split; [reflexivity|].
  split; [apply okio_app; rewrite L1; split; assumption|rewrite lastr_app, L1; exact L2].
Qed.

Lemma G_then l0 a l1 b c : G l0 a b l1 -> Gx l1 b c -> Gx l0 a c.
Proof.
  intros (t1 & E1 & O1 & L1) (t2 & E2 & O2). exists (t1 ++ t2). rewrite E2, E1, app_assoc. split; [reflexivity|].
  apply okio_app. rewrite L1. split; assumption.
Qed.

Lemma G_weaken l0 a b l1 : G l0 a b l1 -> Gx l0 a b.
Proof. intros (t & E & O & _). exists t. split; assumption. Qed.

Lemma G_quiet last w w' es : w_trace w' = w_trace w ++ es -> Forall quiet es -> G last w w' last.
Proof. intros E Q. destruct (quiet_ok last es Q) as (A & B). exists es. repeat split; assumption. Qed.

Lemma G_notify last w e : G last w (notify w e) last.
Proof. apply (G_quiet _ _ _ (map (fun o => EObs o e) (w_obs w))); [reflexivity|apply q_obs]. Qed.

Ltac qall := repeat (first [apply Forall_nil | apply Forall_cons; [exact I|]]).
Ltac gq := first
  [ apply (G_quiet _ _ _ []); [cbn [w_trace emit set_trace set_queues set_io set_data set_cfg set_ctl set_obs release_pending notify];
                              rewrite ?app_nil_r; reflexivity|constructor]
  | (eapply G_quiet; [cbn [w_trace emit set_trace set_queues set_io set_data set_cfg set_ctl set_obs release_pending notify];
                      rewrite <- ?app_assoc; reflexivity|qall]) ].

Lemma G_do_send last w line w' : do_send w line = Some w' -> G last w w' last.
Proof.
  unfold do_send. destruct (negb _); [discriminate|]. destruct (_ && negb _); [discriminate|].
  set (w1 := notify w (ORequest line)).
  assert (G1 : G last w w1 last) by apply G_notify.
  destruct (w_peer_closed w1); intro H; inversion H; subst; clear H.
  - eapply G_trans; [exact G1|]. gq.
  - eapply G_trans; [exact G1|].
    match goal with |- G _ w1 (peer_react ?W) _ => apply (G_trans _ _ last W) end.
    + gq.
    + apply (G_quiet _ _ _ []); [rewrite app_nil_r; apply peer_react_trace|constructor].
Qed.

Lemma G_close_data last w : G last w (close_data w) last.
Proof.
  unfold close_data. destruct (w_data w) as [d|]; [|apply G_refl].
  destruct (d_sock d), (d_acc d); cbv zeta.
  - apply (G_quiet _ _ _ [EData DClose; EData DAccClose]); [cbn [w_trace set_data emit set_trace release_pending set_queues]; rewrite <- app_assoc; reflexivity|qall].
  - apply (G_quiet _ _ _ [EData DClose]); [reflexivity|qall].
  - apply (G_quiet _ _ _ [EData DAccClose]); [reflexivity|qall].
  - apply (G_quiet _ _ _ []); [rewrite app_nil_r; reflexivity|constructor].
Qed.

Lemma G_ctl_disconnect last w : G last w (snd (ctl_disconnect w)) last.
Proof.
  unfold ctl_disconnect. cbn [snd].
  eapply G_quiet; [cbn [w_trace set_queues set_ctl emit set_trace]; reflexivity|].
  destruct (w_ssl w); cbn [app]; qall.
Qed.

(* ------------------------------------------------------------------ programs *)
(* [gd p last]: p touches callback / sink / source ([PumpIn], [PumpOut], [PumpInList], [Poll]) only at points where the
   most recent reply - [last] before p, then whatever p itself receives - is non-negative *)
Fixpoint gd (p : prog) (last : option reply) : Prop :=
  match p with
  | Ret _ | Throw => True
  | Recv k => forall r, gd (k r) (Some r)
  | PumpIn k | PumpOut k => okl last /\ forall x, gd (k x) last
  | PumpInList k => okl last /\ forall t, gd (k t) last
  | Poll k => okl last /\ forall b, gd (k b) last
  | GetCfg k => forall c, gd (k c) last
  | IsOpen k | IsSsl k => forall b, gd (k b) last
  | CheckArg _ k | Send _ _ k | SendRaw _ k | SendAdv _ k | Notify _ k | SetTypeCfg _ k | CtlConnect _ _ k | CtlSetSsl _ k
  | CtlHandshake k | CtlTlsShutdown k | CtlDisconnect k | DNew k | DConnect _ _ k | DListenP k | DAccept k | DHandshakeP k
  | DDisconnect _ k | Scope k => gd k last
  end.

Lemma run_gd : forall p last w, gd p last -> Gx last w (snd (run p w)).
Proof.
  induction p as [v| |a k IH|verb arg k IH|line k IH|a k IH|k IH|e k IH|k IH|t k IH|k IH|k IH|h pt k IH|on k IH|k IH|k IH|k IH
                 |k IH|ip port k IH|k IH|k IH|k IH|g k IH|k IH|k IH|k IH|k IH|body IH]; intros last w N; cbn [run]; cbn [gd] in N.
  - apply Gx_refl.
  - apply Gx_refl.
  - destruct (has_crlf a); [apply Gx_refl|apply IH; exact N].
  - destruct arg as [a|].
    + destruct (has_crlf a); [apply Gx_refl|].
      destruct (do_send w _) as [w'|] eqn:E; cbn [snd];
        [eapply G_then; [eapply G_do_send; eauto|apply IH; exact N]|eapply G_weaken; apply G_notify].
    + destruct (do_send w _) as [w'|] eqn:E; cbn [snd];
        [eapply G_then; [eapply G_do_send; eauto|apply IH; exact N]|eapply G_weaken; apply G_notify].
  - destruct (do_send w _) as [w'|] eqn:E; cbn [snd];
      [eapply G_then; [eapply G_do_send; eauto|apply IH; exact N]|eapply G_weaken; apply G_notify].
  - destruct (match a with AdvEprt => _ | AdvPort => _ end) as [line|]; [|apply Gx_refl].
    destruct (do_send w _) as [w'|] eqn:E; cbn [snd];
      [eapply G_then; [eapply G_do_send; eauto|apply IH; exact N]|eapply G_weaken; apply G_notify].
  - (* Recv *)
    destruct (negb (w_open w)); [apply Gx_refl|].
    destruct (w_backlog w) as [|[t [r|]] rest].
    + destruct (w_peer_closed w); apply Gx_refl.
    + set (w1 := emit (set_queues w rest (w_pending w)) [ERecv t r]).
      assert (G1 : G last w w1 (Some r)).
      { exists [ERecv t r]. split; [reflexivity|]. split; [exact I|reflexivity]. }
      destruct (code r =? 421).
      * destruct (ctl_disconnect w1) as [ok w2] eqn:D.
        pose proof (G_ctl_disconnect (Some r) w1) as G2. rewrite D in G2. cbn [snd] in G2.
        destruct ok; cbn [snd].
        -- eapply G_then; [exact G1|]. eapply G_then; [exact G2|]. eapply G_then; [apply G_notify|apply IH; apply N].
        -- eapply G_weaken. eapply G_trans; [exact G1|exact G2].
      * eapply G_then; [exact G1|]. eapply G_then; [apply G_notify|apply IH; apply N].
    + cbn [snd]. eapply G_weaken. gq.
  - eapply G_then; [apply G_notify|apply IH; exact N].
  - apply IH. apply N.
  - eapply G_then; [|apply IH; exact N]. gq.
  - apply IH. apply N.
  - apply IH. apply N.
  - (* CtlConnect *)
    match goal with |- context [match w_script ?w0 with _ => _ end] => set (W0 := w0) end.
    assert (X0 : G last w W0 last) by (unfold W0; destruct (w_open w); gq).
    destruct (w_script W0) as [|s rest]; cbn [snd].
    + eapply G_weaken. eapply G_trans; [exact X0|gq].
    + destruct (negb (s_reachable s)); cbn [snd].
      * eapply G_weaken. eapply G_trans; [exact X0|].
        eapply G_quiet; [cbn [w_trace emit set_trace]; reflexivity|qall].
      * eapply G_then; [exact X0|]. eapply G_then; [|apply IH; exact N].
        eapply G_quiet; [cbn [w_trace emit set_trace]; reflexivity|qall].
  - eapply G_then; [|apply IH; exact N]. gq.
  - destruct (w_last_tls_ok w && negb (w_peer_closed w)); cbn [snd]; [eapply G_then; [|apply IH; exact N]|eapply G_weaken]; gq.
  - destruct (w_tls_up w && w_tls_clean w && negb (w_peer_closed w)); cbn [snd]; [eapply G_then; [|apply IH; exact N]|eapply G_weaken]; gq.
  - destruct (ctl_disconnect w) as [ok w1] eqn:D.
    pose proof (G_ctl_disconnect last w) as G2. rewrite D in G2. cbn [snd] in G2.
    destruct ok; cbn [snd]; [eapply G_then; [exact G2|apply IH; exact N]|eapply G_weaken; exact G2].
  - eapply G_then; [|apply IH; exact N]. gq.
  - destruct (dp_reachable (w_plan w)); cbn [snd]; [eapply G_then; [|apply IH; exact N]|eapply G_weaken]; gq.
  - eapply G_then; [|apply IH; exact N]. gq.
  - destruct (dp_reachable (w_plan w)); cbn [snd]; [eapply G_then; [|apply IH; exact N]; gq|apply Gx_refl].
  - destruct (dp_tls_ok (w_plan w)); cbn [snd]; [eapply G_then; [|apply IH; exact N]|eapply G_weaken]; gq.
  - destruct (w_data w) as [d|]; [|apply IH; exact N].
    destruct (d_ssl d && negb (dp_shutdown_ok (w_plan w))); cbn [snd]; [eapply G_weaken; gq|].
    eapply G_then; [|apply IH; exact N]. eapply G_trans; [|apply G_close_data].
    destruct (d_ssl d), g; cbn [app]; gq.
  - (* PumpIn *)
    destruct N as (L & N).
    destruct (data_recv _ _ _ _ _) as [[ev r] cb'].
    match goal with |- context [set_io ?A ?B] => set (W1 := set_io A B) end.
    assert (G1 : G last w W1 last).
    { destruct (io_ok last ev L) as (A & B). exists (map EIo ev). unfold W1. repeat split; assumption. }
    destruct r; cbn [snd]; try (eapply G_weaken; exact G1); (eapply G_then; [exact G1|apply IH; apply N]).
  - destruct N as (L & N).
    destruct (data_recv _ _ _ _ _) as [[ev r] cb'].
    match goal with |- context [emit w ?E] => set (W1 := emit w E) end.
    assert (G1 : G last w W1 last).
    { destruct (io_ok last ev L) as (A & B). exists (map EIo ev). unfold W1. repeat split; assumption. }
    destruct r; cbn [snd]; try (eapply G_weaken; exact G1); (eapply G_then; [exact G1|apply IH; apply N]).
  - destruct N as (L & N).
    destruct (data_send _ _ _ _) as [[ev r] cb'].
    match goal with |- context [set_io ?A ?B] => set (W1 := set_io A B) end.
    assert (G1 : G last w W1 last).
    { destruct (io_ok last ev L) as (A & B). exists (map EIo ev). unfold W1. repeat split; assumption. }
    destruct r; cbn [snd]; try (eapply G_weaken; exact G1); (eapply G_then; [exact G1|apply IH; apply N]).
  - (* Poll *)
    destruct N as (L & N).
    destruct (io_cb (w_io w)) as [answers|]; [|apply IH; apply N].
    destruct (poll answers) as [a answers'].
    eapply G_then; [|apply IH; apply N].
    exists [EIo (IoPoll a)]. split; [reflexivity|]. split; [split; [exact L|exact I]|reflexivity].
  - (* Scope *)
    destruct (run body w) as [o w1] eqn:Rn. cbn [snd].
    pose proof (IH last w N) as (tr & E & O). rewrite Rn in E. cbn [snd] in E.
    destruct (G_close_data (lastr last tr) w1) as (t2 & E2 & O2 & _).
    exists (tr ++ t2). split.
    + cbn [w_trace set_data]. rewrite E2, E, app_assoc. reflexivity.
    + apply okio_app. split; assumption.
Qed.

(* ------------------------------------------------------------------ the operations *)
Lemma okl_some r : is_negative r = false -> okl (Some r).
Proof. intro H. exists r. split; [reflexivity|exact H]. Qed.

Ltac gdt := repeat (cbn [gd]; first
  [ exact I | intro | split
  | match goal with
    | H : is_negative ?r = false |- okl (Some ?r) => apply okl_some; exact H
    | |- gd (if ?b then _ else _) _ => destruct b eqn:?
    | |- gd (match ?x with _ => _ end) _ => destruct x eqn:?
    | |- gd (let _ := _ in _) _ => cbv zeta
    end ]).

Lemma gd_cdc verb arg acc k_ok k_none last :
  (forall a r, is_negative r = false -> gd (k_ok a) (Some r)) -> (forall a l, gd (k_none a) l) ->
  gd (create_data_connection verb arg acc k_ok k_none) last.
Proof.
  intros K1 K2. unfold create_data_connection, process_command. cbn [gd]. intro c.
  destruct (c_mode c), (c_rfc2428 c); gdt; first [apply K2 | apply K1; assumption].
Qed.

Lemma gd_finish acc last : okl last -> gd (finish_transfer acc) last.
Proof. intro L. unfold finish_transfer, process_abort, process_command. gdt; exact L. Qed.

Lemma gd_download path : gd (op_download path) None.
Proof.
  unfold op_download. cbn [gd]. apply gd_cdc; [|intros; exact I].
  intros a r Hr. cbn [gd]. split; [apply okl_some; exact Hr|]. intro x. apply gd_finish. apply okl_some. exact Hr.
Qed.

Lemma gd_upload v path : gd (op_upload v path) None.
Proof.
  unfold op_upload. cbn [gd]. apply gd_cdc; [|intros; exact I].
  intros a r Hr. cbn [gd]. split; [apply okl_some; exact Hr|]. intro x. apply gd_finish. apply okl_some. exact Hr.
Qed.

Lemma gd_list path names : gd (op_list path names) None.
Proof.
  unfold op_list. cbn [gd]. apply gd_cdc; [|intros; exact I].
  intros a r Hr. cbn [gd]. split; [apply okl_some; exact Hr|]. intros. exact I.
Qed.

Lemma gd_process_login u pw acc k last : (forall a l, gd (k a) l) -> gd (process_login u pw acc k) last.
Proof. intro K. unfold process_login, process_command, process_raw. gdt; apply K. Qed.

Lemma gd_connect h p l : gd (op_connect h p l) None.
Proof.
  unfold op_connect, process_raw. cbv zeta.
  assert (LP : forall acc last, gd (match l with
                | None => Ret (RvReplies acc)
                | Some (u, pw) => process_login u pw acc (fun acc' => Ret (RvReplies acc')) end) last).
  { intros acc last. destruct l as [[u pw]|]; [apply gd_process_login; intros; exact I|exact I]. }
  destruct l as [[u pw]|]; gdt; try apply (LP _ _); try (apply gd_process_login; intros; exact I).
Qed.

(* every call, every state, every server: what the call adds to the trace touches the caller's sink, source and
   callback (and moves data on the data connection) only while the most recent reply read IN THIS CALL is non-negative -
   never before the first reply, never after a refusal *)
Theorem step_moves_only_when_accepted a w :
  exists tr, w_trace (snd (step w a)) = w_trace w ++ tr /\ okio None tr.
Proof.
  assert (ST : forall p i, gd p None -> exists tr, w_trace (snd (run p (set_io w i))) = w_trace w ++ tr /\ okio None tr).
  { intros p i N. destruct (run_gd p None (set_io w i) N) as (tr & E & O). exists tr. split; [exact E|exact O]. }
  destruct a as [h p l|u pw| |v arg|t|x y|path cb f|uv path ch cb|path names|g|o|o|md|b]; unfold step; cbn [prog_of];
    try (exists []; rewrite app_nil_r; split; [reflexivity|exact I]).
  - apply ST. apply gd_connect.
  - apply ST. unfold op_login. apply gd_process_login. intros; exact I.
  - apply ST. unfold op_logout, process_command. gdt.
  - apply ST. unfold op_simple, process_command. gdt.
  - apply ST. unfold op_set_type, process_command. gdt.
  - apply ST. unfold op_rename, process_command. gdt.
  - apply ST. apply gd_download.
  - apply ST. apply gd_upload.
  - apply ST. apply gd_list.
  - apply ST. unfold op_disconnect, process_command. destruct g; gdt.
Qed.

(* read back on a trace: an [EIo] event whose most recent [ERecv] is negative (or absent) cannot occur *)
Lemma okio_split last pre e post : okio last (pre ++ EIo e :: post) -> okl (lastr last pre).
Proof. intro H. apply okio_app in H. destruct H as (_ & H). cbn [okio] in H. exact (proj1 H). Qed.

Corollary nothing_moves_after_a_refusal a w tr pre e post :
  w_trace (snd (step w a)) = w_trace w ++ tr -> tr = pre ++ EIo e :: post ->
  exists r, lastr None pre = Some r /\ is_negative r = false.
Proof.
  intros E S. destruct (step_moves_only_when_accepted a w) as (tr' & E' & O).
  rewrite E in E'. apply app_inv_head in E'. subst tr'. subst tr.
  exact (okio_split None pre e post O).
Qed.

(* non-vacuity: an accepted download moves data (EIo events, after 150), a refused one adds none *)
Definition moves_script (code : N) : list session :=
  let say c := mkR [RReply (mkReply c [])] [] false false true no_plan in
  let epsv := mkR [RReply (mkReply 229 [40;124;124;124;53;124;41])] [] false false true (mkDP true true [] DEof true) in
  let retr := mkR (if code <? 400 then [RReply (mkReply code []); RReply (mkReply 226 [])] else [RReply (mkReply code [])])
                  [] false false true (mkDP true true [[1]] DEof true) in
  [mkSess true false true (say 220) [epsv; retr]].

Definition io_count (tr : list event) : nat := length (filter (fun e => match e with EIo _ => true | _ => false end) tr).

Example moves_example :
  let run_it code := w_trace (snd (steps (init_world (mkConfig Passive true TBinary false false) (moves_script code))
                                         [AConnect [104] 21 None; ADownload [102] None None])) in
  (0 < io_count (run_it 150%N))%nat /\ io_count (run_it 550%N) = O.
Proof. vm_compute. split; [|reflexivity]. repeat constructor. Qed.
