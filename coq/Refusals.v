(* Refusals.v - C07 for EVERY operation: the four refusal theorems (set-up command / transfer command x passive / active)
   stated for any transfer verb, any argument (present or absent), any continuation after acceptance and any shape of
   the returned value - so that they apply to downloads, uploads (STOR / STOU / APPE) AND listings (LIST / NLST, with or
   without a path). *)
From LibFtp Require Import Bytes Decimal Reply Endpoint Ascii DataConn DataConn_Proofs Client Client_Proofs Login_Proofs Transfer_Proofs Transfer_More.
Local Open Scope N_scope.

Section Gen.
Variables (carg verb : bytes) (arg : option bytes) (io : io_args) (k_ok : list reply -> prog) (mk : list reply -> retv).
Hypothesis Hcarg : has_crlf carg = false.
Hypothesis Harg : arg_ok arg.
Let op := CheckArg carg (Scope (create_data_connection verb arg [] k_ok (fun acc => Ret (mk acc)))).

Theorem refused_gen_passive_setup w r1 rest x1 :
  insync w (r1 :: rest) -> w_data w = None -> c_mode (w_cfg w) = Passive ->
  simple_reaction r1 x1 -> is_negative x1 = true ->
  exists w', run op (set_io w io) = (OReturn (mk [x1]), w') /\
    insync w' rest /\ w_data w' = None /\ w_cfg w' = w_cfg w /\
    io_events (skipn (length (w_trace w)) (w_trace w')) = [] /\
    wire_events (skipn (length (w_trace w)) (w_trace w')) = [WLine (setup_line (w_cfg w)); WReply x1] /\
    data_events (skipn (length (w_trace w)) (w_trace w')) = [].
Proof.
  intros ((Ho & Hs & Hpc & Hb) & Hp & Hc) Hd Hm (R1n & R1c & R1a & R1x) N1.
  destruct w as [cfg f2 f3 f4 f5 f6 f7 f8 f9 f10 f11 f12 f13 f14 f15 f16 f17 f18 f19 f20].
  destruct cfg as [cm crfc cty ctls cres].
  cbn in Ho, Hs, Hpc, Hb, Hp, Hc, Hd, Hm. subst.
  destruct r1 as [n1 oc1 dp1 ca1 tl1 d1]. cbn in R1n, R1c, R1a. subst.
  unfold op. rewrite run_checkarg, Hcarg, run_scope.
  unfold create_data_connection. rewrite run_getcfg. flat.
  destruct crfc; cbn [setup_line c_rfc2428].
  - erewrite (xchg EPSV_ None _ _ _ _ x1); [| repeat split; auto | reflexivity | repeat split; auto | exact I].
    cbv beta. rewrite N1. cbv beta iota. rewrite run_ret.
    eexists. split; [reflexivity|].
    split. { unfold insync, ready. cbn. rewrite Hs. destruct dp1; auto. }
    split; [reflexivity|]. split; [reflexivity|].
    trace_facts. auto.
  - erewrite (xchg PASV_ None _ _ _ _ x1); [| repeat split; auto | reflexivity | repeat split; auto | exact I].
    cbv beta. rewrite N1. cbv beta iota. rewrite run_ret.
    eexists. split; [reflexivity|].
    split. { unfold insync, ready. cbn. rewrite Hs. destruct dp1; auto. }
    split; [reflexivity|]. split; [reflexivity|].
    trace_facts. auto.
Qed.

Theorem refused_gen_passive_command w r1 r2 rest x1 x2 ip port :
  insync w (r1 :: r2 :: rest) -> w_data w = None -> c_mode (w_cfg w) = Passive ->
  simple_reaction r1 x1 -> is_negative x1 = false -> passive_target (w_cfg w) x1 ip port ->
  dp_reachable (r_data r1) = true ->
  simple_reaction r2 x2 -> is_negative x2 = true ->
  exists w', run op (set_io w io) = (OReturn (mk [x1; x2]), w') /\
    insync w' rest /\ w_data w' = None /\ w_cfg w' = w_cfg w /\
    io_events (skipn (length (w_trace w)) (w_trace w')) = [] /\
    wire_events (skipn (length (w_trace w)) (w_trace w')) =
      [WLine (setup_line (w_cfg w)); WReply x1; WLine (line_of verb arg); WReply x2] /\
    data_events (skipn (length (w_trace w)) (w_trace w')) =
      [DNewObj; DConnectTo ip port true; DTcpShutdown; DClose].
Proof.
  intros ((Ho & Hs & Hpc & Hb) & Hp & Hc) Hd Hm (R1n & R1c & R1a & R1x) N1 Tgt Reach
         (R2n & R2c & R2a & X2) N2.
  destruct w as [cfg f2 f3 f4 f5 f6 f7 f8 f9 f10 f11 f12 f13 f14 f15 f16 f17 f18 f19 f20].
  destruct cfg as [cm crfc cty ctls cres].
  cbn in Ho, Hs, Hpc, Hb, Hp, Hc, Hd, Hm, Tgt. subst.
  destruct r1 as [n1 oc1 dp1 ca1 tl1 d1]. destruct r2 as [n2 oc2 dp2 ca2 tl2 d2].
  cbn in R1n, R1c, R1a, Reach, R2n, R2c, R2a. subst.
  unfold op. rewrite run_checkarg, Hcarg, run_scope.
  unfold create_data_connection. rewrite run_getcfg. flat.
  destruct crfc; cbn [setup_line c_rfc2428].
  - destruct Tgt as (P1 & ->).
    erewrite (xchg EPSV_ None _ _ _ _ x1); [| repeat split; auto | reflexivity | repeat split; auto | exact I].
    cbv beta. rewrite N1, P1. cbv beta iota.
    rewrite run_dnew. rewrite run_dconnect by exact Reach.
    erewrite (xchg verb arg _ _ _ _ x2); [| repeat split; auto | reflexivity | repeat split; auto | exact Harg].
    cbv beta. rewrite N2. cbv beta iota.
    rewrite (run_ddisconnect true _ _ (mkD true false false)) by reflexivity.
    rewrite run_ret.
    eexists. split; [reflexivity|].
    split. { unfold insync, ready. cbn. rewrite !Hdp, Hs. auto. }
    split; [reflexivity|]. split; [reflexivity|].
    trace_facts. auto.
  - destruct Tgt as (a & P1 & ->).
    erewrite (xchg PASV_ None _ _ _ _ x1); [| repeat split; auto | reflexivity | repeat split; auto | exact I].
    cbv beta. rewrite N1, P1. cbv beta iota.
    rewrite run_dnew. rewrite run_dconnect by exact Reach.
    erewrite (xchg verb arg _ _ _ _ x2); [| repeat split; auto | reflexivity | repeat split; auto | exact Harg].
    cbv beta. rewrite N2. cbv beta iota.
    rewrite (run_ddisconnect true _ _ (mkD true false false)) by reflexivity.
    rewrite run_ret.
    eexists. split; [reflexivity|].
    split. { unfold insync, ready. cbn. rewrite !Hdp, Hs. auto. }
    split; [reflexivity|]. split; [reflexivity|].
    trace_facts. auto.
Qed.

Theorem refused_gen_active_setup w r1 rest x1 line :
  insync w (r1 :: rest) -> w_data w = None -> c_mode (w_cfg w) = Active -> adv_cmd w = Some line ->
  simple_reaction r1 x1 -> is_negative x1 = true ->
  exists w', run op (set_io w io) = (OReturn (mk [x1]), w') /\
    insync w' rest /\ w_data w' = None /\ w_cfg w' = w_cfg w /\
    io_events (skipn (length (w_trace w)) (w_trace w')) = [] /\
    wire_events (skipn (length (w_trace w)) (w_trace w')) = [WLine line; WReply x1] /\
    data_events (skipn (length (w_trace w)) (w_trace w')) = [DNewObj; DListen; DAccClose].
Proof.
  intros ((Ho & Hs & Hpc & Hb) & Hp & Hc) Hd Hm Hadv (R1n & R1c & R1a & R1x) N1.
  destruct w as [cfg f2 f3 f4 f5 f6 f7 f8 f9 f10 f11 f12 f13 f14 f15 f16 f17 f18 f19 f20].
  destruct cfg as [cm crfc cty ctls cres].
  cbn in Ho, Hs, Hpc, Hb, Hp, Hc, Hd, Hm. subst.
  destruct r1 as [n1 oc1 dp1 ca1 tl1 d1]. cbn in R1n, R1c, R1a. subst.
  unfold adv_cmd in Hadv. cbn [w_cfg c_rfc2428] in Hadv.
  unfold op. rewrite run_checkarg, Hcarg, run_scope.
  unfold create_data_connection. rewrite run_getcfg. flat.
  rewrite run_isopen. flat. rewrite run_dnew, run_dlisten.
  erewrite (xchg_adv (if crfc then AdvEprt else AdvPort) _ _ line _ _ x1);
    [| repeat split; auto | reflexivity | repeat split; auto | destruct crfc; exact Hadv].
  cbv beta. rewrite N1. cbv beta iota. rewrite run_ret.
  eexists. split; [reflexivity|].
  split. { unfold insync, ready. cbn. rewrite Hs. destruct dp1; auto. }
  split; [reflexivity|]. split; [reflexivity|].
  trace_facts. auto.
Qed.

Theorem refused_gen_active_command w r1 r2 rest x1 x2 line :
  insync w (r1 :: r2 :: rest) -> w_data w = None -> c_mode (w_cfg w) = Active -> adv_cmd w = Some line ->
  simple_reaction r1 x1 -> is_negative x1 = false ->
  simple_reaction r2 x2 -> is_negative x2 = true ->
  exists w', run op (set_io w io) = (OReturn (mk [x1; x2]), w') /\
    insync w' rest /\ w_data w' = None /\ w_cfg w' = w_cfg w /\
    io_events (skipn (length (w_trace w)) (w_trace w')) = [] /\
    wire_events (skipn (length (w_trace w)) (w_trace w')) = [WLine line; WReply x1; WLine (line_of verb arg); WReply x2] /\
    data_events (skipn (length (w_trace w)) (w_trace w')) = [DNewObj; DListen; DAccClose].
Proof.
  intros ((Ho & Hs & Hpc & Hb) & Hp & Hc) Hd Hm Hadv (R1n & R1c & R1a & R1x) N1 (R2n & R2c & R2a & X2) N2.
  destruct w as [cfg f2 f3 f4 f5 f6 f7 f8 f9 f10 f11 f12 f13 f14 f15 f16 f17 f18 f19 f20].
  destruct cfg as [cm crfc cty ctls cres].
  cbn in Ho, Hs, Hpc, Hb, Hp, Hc, Hd, Hm. subst.
  destruct r1 as [n1 oc1 dp1 ca1 tl1 d1]. destruct r2 as [n2 oc2 dp2 ca2 tl2 d2].
  cbn in R1n, R1c, R1a, R2n, R2c, R2a. subst.
  unfold adv_cmd in Hadv. cbn [w_cfg c_rfc2428] in Hadv.
  unfold op. rewrite run_checkarg, Hcarg, run_scope.
  unfold create_data_connection. rewrite run_getcfg. flat.
  rewrite run_isopen. flat. rewrite run_dnew, run_dlisten.
  erewrite (xchg_adv (if crfc then AdvEprt else AdvPort) _ _ line _ _ x1);
    [| repeat split; auto | reflexivity | repeat split; auto | destruct crfc; exact Hadv].
  cbv beta. rewrite N1. cbv beta iota.
  erewrite (xchg verb arg _ _ _ _ x2); [| repeat split; auto | reflexivity | repeat split; auto | exact Harg].
  cbv beta. rewrite N2. cbv beta iota. rewrite run_ret.
  eexists. split; [reflexivity|].
  split. { unfold insync, ready. cbn. rewrite !Hdp, Hs. auto. }
  split; [reflexivity|]. split; [reflexivity|].
  trace_facts. auto.
Qed.
End Gen.

(* ---- listings (LIST / NLST, with or without a path): refused at each step, each method ---- *)
Lemma list_carg path : arg_ok path -> has_crlf (match path with Some p => p | None => [] end) = false.
Proof. destruct path; intro H; [exact H|reflexivity]. Qed.

Definition list_verb (names : bool) : bytes := if names then NLST_ else LIST_.

Theorem list_refused_at_setup_passive w path names r1 rest x1 :
  arg_ok path -> insync w (r1 :: rest) -> w_data w = None -> c_mode (w_cfg w) = Passive ->
  simple_reaction r1 x1 -> is_negative x1 = true ->
  exists w', step w (AList path names) = (OReturn (RvList [x1] []), w') /\
    insync w' rest /\ w_data w' = None /\ w_cfg w' = w_cfg w /\
    io_events (skipn (length (w_trace w)) (w_trace w')) = [] /\
    wire_events (skipn (length (w_trace w)) (w_trace w')) = [WLine (setup_line (w_cfg w)); WReply x1] /\
    data_events (skipn (length (w_trace w)) (w_trace w')) = [].
Proof.
  intros Ha. rewrite step_list_unfold. unfold op_list.
  exact (refused_gen_passive_setup _ (list_verb names) path no_io _ (fun acc => RvList acc []) (list_carg path Ha) w r1 rest x1).
Qed.

Theorem list_refused_at_command_passive w path names r1 r2 rest x1 x2 ip port :
  arg_ok path -> insync w (r1 :: r2 :: rest) -> w_data w = None -> c_mode (w_cfg w) = Passive ->
  simple_reaction r1 x1 -> is_negative x1 = false -> passive_target (w_cfg w) x1 ip port ->
  dp_reachable (r_data r1) = true ->
  simple_reaction r2 x2 -> is_negative x2 = true ->
  exists w', step w (AList path names) = (OReturn (RvList [x1; x2] []), w') /\
    insync w' rest /\ w_data w' = None /\ w_cfg w' = w_cfg w /\
    io_events (skipn (length (w_trace w)) (w_trace w')) = [] /\
    wire_events (skipn (length (w_trace w)) (w_trace w')) =
      [WLine (setup_line (w_cfg w)); WReply x1; WLine (line_of (list_verb names) path); WReply x2] /\
    data_events (skipn (length (w_trace w)) (w_trace w')) =
      [DNewObj; DConnectTo ip port true; DTcpShutdown; DClose].
Proof.
  intros Ha. rewrite step_list_unfold. unfold op_list.
  exact (refused_gen_passive_command _ (list_verb names) path no_io _ (fun acc => RvList acc []) (list_carg path Ha) Ha w r1 r2 rest x1 x2 ip port).
Qed.

Theorem list_refused_at_setup_active w path names r1 rest x1 line :
  arg_ok path -> insync w (r1 :: rest) -> w_data w = None -> c_mode (w_cfg w) = Active -> adv_cmd w = Some line ->
  simple_reaction r1 x1 -> is_negative x1 = true ->
  exists w', step w (AList path names) = (OReturn (RvList [x1] []), w') /\
    insync w' rest /\ w_data w' = None /\ w_cfg w' = w_cfg w /\
    io_events (skipn (length (w_trace w)) (w_trace w')) = [] /\
    wire_events (skipn (length (w_trace w)) (w_trace w')) = [WLine line; WReply x1] /\
    data_events (skipn (length (w_trace w)) (w_trace w')) = [DNewObj; DListen; DAccClose].
Proof.
  intros Ha. rewrite step_list_unfold. unfold op_list.
  exact (refused_gen_active_setup _ (list_verb names) path no_io _ (fun acc => RvList acc []) (list_carg path Ha) w r1 rest x1 line).
Qed.

Theorem list_refused_at_command_active w path names r1 r2 rest x1 x2 line :
  arg_ok path -> insync w (r1 :: r2 :: rest) -> w_data w = None -> c_mode (w_cfg w) = Active -> adv_cmd w = Some line ->
  simple_reaction r1 x1 -> is_negative x1 = false ->
  simple_reaction r2 x2 -> is_negative x2 = true ->
  exists w', step w (AList path names) = (OReturn (RvList [x1; x2] []), w') /\
    insync w' rest /\ w_data w' = None /\ w_cfg w' = w_cfg w /\
    io_events (skipn (length (w_trace w)) (w_trace w')) = [] /\
    wire_events (skipn (length (w_trace w)) (w_trace w')) = [WLine line; WReply x1; WLine (line_of (list_verb names) path); WReply x2] /\
    data_events (skipn (length (w_trace w)) (w_trace w')) = [DNewObj; DListen; DAccClose].
Proof.
  intros Ha. rewrite step_list_unfold. unfold op_list.
  exact (refused_gen_active_command _ (list_verb names) path no_io _ (fun acc => RvList acc []) (list_carg path Ha) Ha w r1 r2 rest x1 x2 line).
Qed.

(* ---- an upload refused at the passive set-up command (the case Client_Proofs.refused_at_passive_setup does not
   cover: its continuation is the download's) ---- *)
Theorem upload_refused_at_setup_passive w u path chunks cb r1 rest x1 :
  has_crlf path = false -> insync w (r1 :: rest) -> w_data w = None -> c_mode (w_cfg w) = Passive ->
  simple_reaction r1 x1 -> is_negative x1 = true ->
  exists w', step w (AUpload u path chunks cb) = (OReturn (RvReplies [x1]), w') /\
    insync w' rest /\ w_data w' = None /\ w_cfg w' = w_cfg w /\
    io_events (skipn (length (w_trace w)) (w_trace w')) = [] /\
    wire_events (skipn (length (w_trace w)) (w_trace w')) = [WLine (setup_line (w_cfg w)); WReply x1] /\
    data_events (skipn (length (w_trace w)) (w_trace w')) = [].
Proof.
  intros Ha. rewrite step_upload_unfold. unfold op_upload.
  exact (refused_gen_passive_setup path (upverb_bytes u) (Some path) (mkIo cb (mkSink None O) chunks) _ RvReplies Ha w r1 rest x1).
Qed.
