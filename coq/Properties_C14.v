(* C14 - observers see exactly the control-channel transcript, in order. *)
From LibFtp Require Import Bytes Decimal Reply Endpoint Ascii DataConn DataConn_Proofs Client Client_Proofs Login_Proofs Transfer_Proofs.
Local Open Scope N_scope.

(* For every program (hence every API call), every world: what the program adds to the trace decomposes into
   actions - request (observers told, then the line written), reply (read, then observers told), on_connected /
   on_file_list, and socket / data / callback events - such that
   * every observer o sees exactly the transcript of these actions, each event as many times as o is registered
     (0 times = a removed observer receives nothing), in transcript order;
   * the lines written and the replies read, in trace order, are the wire items of the same actions: the
     sequence of notifications equals the transcript of the control channel;
   * the list of observers is not changed by a call. Within a notification the observers are served in
     registration order (events_of: block = map over the registration list). *)
Theorem C14_observer_transcript : forall p w,
  exists acts new,
    w_trace (snd (run p w)) = w_trace w ++ new /\ w_obs (snd (run p w)) = w_obs w /\
    (forall o, seen_by o new = concat (map (fun e => repeat e (count_occ Nat.eq_dec (w_obs w) o)) (transcript acts))) /\
    wire_events new = concat (map wire_of acts).
Proof. exact observer_transcript. Qed.
Print Assumptions C14_observer_transcript.

(* the trace itself is the flattening of the actions, with a block = one EObs per registered observer in
   registration order: requests are announced BEFORE the line is written, replies AFTER they are read *)
Theorem C14_order_within_actions : forall p w, exists acts,
  w_trace (snd (run p w)) = w_trace w ++ flat (w_obs w) acts /\ forallb wf_action acts = true.
Proof. intros p w. destruct (run_actions p w) as (acts & (T & O & W) & _). exists acts. auto. Qed.
Print Assumptions C14_order_within_actions.

(* add / remove: appended at the end; remove drops every registration of that observer *)
Theorem C14_add_remove : forall w o,
  w_obs (snd (step w (AAddObserver o))) = w_obs w ++ [o] /\
  count_occ Nat.eq_dec (w_obs (snd (step w (ARemoveObserver o)))) o = O.
Proof.
  intros w o. split; [reflexivity|]. cbn. unfold remove_all.
  induction (w_obs w) as [|x l IH]; [reflexivity|]. cbn [filter].
  destruct (Nat.eqb_spec x o) as [->|N]; cbn [negb]; [exact IH|].
  cbn [count_occ]. destruct (Nat.eq_dec x o); [contradiction|exact IH].
Qed.
Print Assumptions C14_add_remove.

(* a whole listing: every registered observer is told the set-up request and its reply, the LIST / NLST request and
   the preliminary reply, then the listing text exactly as delivered, then the completion reply - in this order *)
Theorem C14_listing_transcript : forall w path names r1 r2 rest x1 x2 x3 ip port,
  insync w (r1 :: r2 :: rest) -> w_data w = None ->
  c_mode (w_cfg w) = Passive -> c_tls (w_cfg w) = false ->
  arg_ok path ->
  simple_reaction r1 x1 -> is_negative x1 = false -> passive_target (w_cfg w) x1 ip port ->
  dp_reachable (r_data r1) = true ->
  accepts_transfer r2 x2 x3 -> dp_end (r_data r2) = DEof ->
  exists w', step w (AList path names) = (OReturn (RvList [x1; x2; x3] (delivered (c_type (w_cfg w)) (concat (dp_segs (r_data r2))))), w') /\
    insync w' rest /\ w_data w' = None /\ w_cfg w' = w_cfg w /\
    wire_events (skipn (length (w_trace w)) (w_trace w')) =
      [WLine (setup_line (w_cfg w)); WReply x1; WLine (line_of (if names then NLST_ else LIST_) path); WReply x2; WReply x3] /\
    data_events (skipn (length (w_trace w)) (w_trace w')) =
      [DNewObj; DConnectTo ip port true; DTcpShutdown; DClose] /\
    obs_events (skipn (length (w_trace w)) (w_trace w')) =
      told (w_obs w) (ORequest (setup_line (w_cfg w))) ++ told (w_obs w) (OReply x1) ++
      told (w_obs w) (ORequest (line_of (if names then NLST_ else LIST_) path)) ++ told (w_obs w) (OReply x2) ++
      told (w_obs w) (OFileList (delivered (c_type (w_cfg w)) (concat (dp_segs (r_data r2))))) ++ told (w_obs w) (OReply x3).
Proof. exact list_passive_complete. Qed.
Print Assumptions C14_listing_transcript.
