(* C14 - observers see exactly the control-channel transcript, in order. *)
From LibFtp Require Import Bytes Decimal Reply Endpoint Ascii DataConn DataConn_Proofs Client Client_Proofs Login_Proofs Transfer_Proofs.
Local Open Scope N_scope.

(* For every program (hence every API call), every world: what the program adds to the trace decomposes into
   actions - request (observers told, then the line written), reply (read, then observers told), on_connected /
   on_file_list, and socket / data / callback events - such that
   * every observer o sees exactly the transcript of these actions, each event as many times as o is registered
     (0 times = a removed observer receives nothing), in transcript order;
   * the lines written and the replies read, in trace order, are the wire items of the same actions: the
     sequence of notifications equals the transcript of the control channel;
   * the list of observers is not changed by a call. Within a notification the observers are served in
     registration order (events_of: block = map over the registration list). *)
Theorem C14_observer_transcript : forall p w,
  exists acts new,
    w_trace (snd (run p w)) = w_trace w ++ new /\ w_obs (snd (run p w)) = w_obs w /\
    (forall o, seen_by o new = concat (map (fun e => repeat e (count_occ Nat.eq_dec (w_obs w) o)) (transcript acts))) /\
    wire_events new = concat (map wire_of acts).
Proof. exact observer_transcript. Qed.
Print Assumptions C14_observer_transcript.

(* the trace itself is the flattening of the actions, with a block = one EObs per registered observer in
   registration order: requests are announced BEFORE the line is written, replies AFTER they are read *)
Theorem C14_order_within_actions : forall p w, exists acts,
  w_trace (snd (run p w)) = w_trace w ++ flat (w_obs w) acts /\ forallb wf_action acts = true.
Proof. intros p w. destruct (run_actions p w) as (acts & (T & O & W) & _). exists acts. auto. Qed.
Print Assumptions C14_order_within_actions.

(* add / remove: appended at the end; remove drops every registration of that observer *)
Theorem C14_add_remove : forall w o,
  w_obs (snd (step w (AAddObserver o))) = w_obs w ++ [o] /\
  count_occ Nat.eq_dec (w_obs (snd (step w (ARemoveObserver o)))) o = O.
Proof.
  intros w o. split; [reflexivity|]. cbn. unfold remove_all.
  induction (w_obs w) as [|x l IH]; [reflexivity|]. cbn [filter].
  destruct (Nat.eqb_spec x o) as [->|N]; cbn [negb]; [exact IH|].
  cbn [count_occ]. destruct (Nat.eq_dec x o); [contradiction|exact IH].
Qed.
Print Assumptions C14_add_remove.

(* a whole listing: every registered observer is told the set-up request and its reply, the LIST / NLST request and
   the preliminary reply, then the listing text exactly as delivered, then the completion reply - in this order *)
Theorem C14_listing_transcript : forall w path names r1 r2 rest x1 x2 x3 ip port,
  insync w (r1 :: r2 :: rest) -> w_data w = None ->
  c_mode (w_cfg w) = Passive -> c_tls (w_cfg w) = false ->
  arg_ok path ->
  simple_reaction r1 x1 -> is_negative x1 = false -> passive_target (w_cfg w) x1 ip port ->
  dp_reachable (r_data r1) = true ->
  accepts_transfer r2 x2 x3 -> dp_end (r_data r2) = DEof ->
  exists w', step w (AList path names) = (OReturn (RvList [x1; x2; x3] (delivered (c_type (w_cfg w)) (concat (dp_segs (r_data r2))))), w') /\
    insync w' rest /\ w_data w' = None /\ w_cfg w' = w_cfg w /\
    wire_events (skipn (length (w_trace w)) (w_trace w')) =
      [WLine (setup_line (w_cfg w)); WReply x1; WLine (line_of (if names then NLST_ else LIST_) path); WReply x2; WReply x3] /\
    data_events (skipn (length (w_trace w)) (w_trace w')) =
      [DNewObj; DConnectTo ip port true; DTcpShutdown; DClose] /\
    obs_events (skipn (length (w_trace w)) (w_trace w')) =
      told (w_obs w) (ORequest (setup_line (w_cfg w))) ++ told (w_obs w) (OReply x1) ++
      told (w_obs w) (ORequest (line_of (if names then NLST_ else LIST_) path)) ++ told (w_obs w) (OReply x2) ++
      told (w_obs w) (OFileList (delivered (c_type (w_cfg w)) (concat (dp_segs (r_data r2))))) ++ told (w_obs w) (OReply x3).
Proof. exact list_passive_complete. Qed.
Print Assumptions C14_listing_transcript.

(* ---- observers that unregister observers from inside a callback (Observers.v: the model of for_each_observer - one
   notification round over a copy of the list, skipping whoever is no longer registered; [react o] = the observers that
   o unregisters when it is told). The protocol model above takes callbacks that only listen; that is the special case
   [C14_passive_observers_all_told]. *)
From LibFtp Require Import Observers.
Local Close Scope N_scope.

(* an observer that is not (or no longer) registered when its turn comes is not told: "an observer that has been removed
   receives nothing further" inside a round too - whether it was unregistered by an observer told before it or by itself *)
Theorem C14_not_registered_not_told : forall react copy live o, ~ In o live -> ~ In o (fst (round react copy live)).
Proof. exact not_registered_not_told. Qed.
Print Assumptions C14_not_registered_not_told.

Theorem C14_unregistered_in_the_round_gets_nothing_further : forall react a rest live o,
  In a live -> In o (react a) -> ~ In o (fst (round react rest (unregister (react a) live))).
Proof. exact unregistered_in_the_round_gets_nothing_further. Qed.
Print Assumptions C14_unregistered_in_the_round_gets_nothing_further.

(* registration order is kept (the told list is the registration list with some members left out), and whoever stays
   registered throughout is told *)
Theorem C14_round_keeps_order : forall react copy live, sublist (fst (round react copy live)) copy.
Proof. exact told_is_a_sublist. Qed.
Print Assumptions C14_round_keeps_order.

Theorem C14_registered_throughout_is_told : forall react copy live o,
  In o copy -> In o live -> (forall x, In x copy -> ~ In o (react x)) -> In o (fst (round react copy live)).
Proof. exact registered_throughout_is_told. Qed.
Print Assumptions C14_registered_throughout_is_told.

Theorem C14_passive_observers_all_told : forall live, notify_round (fun _ => []) live = (live, live).
Proof. exact passive_observers_all_told. Qed.
Print Assumptions C14_passive_observers_all_told.

Example C14_example_round :
  (* 1, 2, 3 registered; told, 1 unregisters 3 and 2 unregisters itself: told = 1, 2; registered afterwards: 1 *)
  notify_round (fun o => match o with 1 => [3] | 2 => [2] | _ => [] end) [1; 2; 3] = ([1; 2], [1]).
Proof. vm_compute. reflexivity. Qed.
