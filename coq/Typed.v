(* Typed.v - model of file_size_reply::parse_size (src/file_size_reply.cpp:48-73),
   file_modified_time_reply::parse_datetime (src/file_modified_time_reply.cpp:48-131)
   and file_list_reply::parse_file_list (src/file_list_reply.cpp:52-68). *)
From LibFtp Require Export Bytes Decimal Reply.
Local Open Scope N_scope.

Definition parse_size (r : reply) : option N :=
  if negb (code r =? 213) then None
  else if Nat.ltb (length (text r)) 5 then None
  else try_parse_uint64 (substr_from (text r) 4).

Record datetime := mkDT { year : N; month : N; day : N; hour : N; minute : N; second : N; fractions : N }.

(* [strict] = true: the code after "fix: require a period before the fraction of a MDTM time-val";
   [strict] = false: the pinned code, which skips position 14 unchecked *)
Definition parse_datetime_gen (strict : bool) (r : reply) : option datetime :=
  if negb (code r =? 213) then None
  else if Nat.ltb (length (text r)) 5 then None
  else
    let tv := substr_from (text r) 4 in
    if Nat.ltb (length tv) 14 then None else
    match try_parse_uint16 (substr tv 0 4) with None => None | Some y =>
    match try_parse_uint8 (substr tv 4 2) with None => None | Some mo =>
    match try_parse_uint8 (substr tv 6 2) with None => None | Some d =>
    match try_parse_uint8 (substr tv 8 2) with None => None | Some h =>
    match try_parse_uint8 (substr tv 10 2) with None => None | Some mi =>
    match try_parse_uint8 (substr tv 12 2) with None => None | Some s =>
      if strict then
        if Nat.ltb 14 (length tv) then
          if negb (nth 14 tv 0 =? DOT) then None else
          match try_parse_uint32 (substr_from tv 15) with
          | None => None
          | Some f => Some (mkDT y mo d h mi s f)
          end
        else Some (mkDT y mo d h mi s 0)
      else
        if Nat.ltb 15 (length tv) then
          match try_parse_uint32 (substr_from tv 15) with
          | None => None
          | Some f => Some (mkDT y mo d h mi s f)
          end
        else Some (mkDT y mo d h mi s 0)
    end end end end end end.

Definition parse_datetime := parse_datetime_gen true.
Definition parse_datetime_pinned := parse_datetime_gen false.

(* std::getline loop of parse_file_list: [any] = "characters were extracted for the current line" *)
Fixpoint getlines (s : bytes) (cur : bytes) (any : bool) : list bytes :=
  match s with
  | [] => if any then [rev cur] else []
  | c :: s' => if c =? LF then rev cur :: getlines s' [] false else getlines s' (c :: cur) true
  end.

Definition strip_cr (l : bytes) : bytes :=
  match rev l with
  | c :: r => if c =? CR then rev r else l
  | [] => l
  end.

Definition parse_file_list (s : bytes) : list bytes := map strip_cr (getlines s [] false).

(* ---- specification ---- *)
(* RFC 3659 time-val = 14DIGIT [ "." 1*DIGIT ] *)
Definition is_time_val (tv : bytes) : bool :=
  Nat.leb 14 (length tv) && all_digits (firstn 14 tv) &&
  match skipn 14 tv with
  | [] => true
  | c :: fr => (c =? DOT) && negb (match fr with [] => true | _ => false end) && all_digits fr
  end.

Definition spec_file_list (s : bytes) : list bytes := map strip_cr (drop_last_empty (pieces LF s)).
