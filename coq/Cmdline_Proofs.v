From LibFtp Require Import Bytes Cmdline.
Local Open Scope N_scope.

Lemma read_quoted_escape a : forall acc rest,
  read_quoted (escape a ++ DQ :: rest) acc = Some (rev acc ++ a, rest).
Proof.
  induction a as [|c a IH]; intros acc rest.
  - cbn. rewrite app_nil_r. reflexivity.
  - cbn [escape]. destruct ((c =? DQ) || (c =? BSL)) eqn:E.
    + cbn [app read_quoted]. change (BSL =? BSL) with true. cbn match.
      rewrite IH. cbn [rev]. rewrite <- app_assoc. reflexivity.
    + apply orb_false_iff in E as (E1 & E2). cbn [app read_quoted]. rewrite E2, E1.
      rewrite IH. cbn [rev]. rewrite <- app_assoc. reflexivity.
Qed.

Lemma parse_args_render : forall args fuel, (length args < fuel)%nat ->
  parse_args fuel (render_args args) = args.
Proof.
  induction args as [|a args IH]; intros fuel Hf.
  - destruct fuel; reflexivity.
  - destruct fuel as [|f]; [lia|]. unfold render_args. cbn [map concat]. fold (render_args args).
    unfold quote. cbn [app parse_args skip_ws]. change (is_space 32) with true. cbn match.
    change (is_space DQ) with false. cbn match. change (DQ =? DQ) with true. cbn match.
    rewrite <- app_assoc. cbn [app]. rewrite read_quoted_escape. cbn [rev app].
    rewrite IH by (cbn in Hf; lia). reflexivity.
Qed.

Lemma render_args_length args : (length args <= length (render_args args))%nat.
Proof.
  induction args as [|a args IH]; [cbn; lia|]. unfold render_args in *. cbn [map concat length].
  rewrite app_length. cbn. lia.
Qed.

(* ---- the verb table ---- *)
Definition letters (s : bytes) : bool := forallb (fun x => (97 <=? x) && (x <=? 122)) s.

Lemma verb_names_lower c : lower (verb_name c) = verb_name c /\ letters (verb_name c) = true.
Proof. destruct c; split; vm_compute; reflexivity. Qed.

Lemma lookup_sound l s c : lookup l s = Some c -> lower s = verb_name c.
Proof.
  induction l as [|c' l IH]; cbn; [discriminate|].
  destruct (iequals s (verb_name c')) eqn:E; [|exact IH].
  intro H; inversion H; subst c'. unfold iequals in E. apply bytes_eqb_eq in E.
  rewrite (proj1 (verb_names_lower c)) in E. exact E.
Qed.

Lemma lookup_complete c s : lower s = verb_name c -> get_command_from_string s = Some c.
Proof.
  intro H. unfold get_command_from_string, all_commands, lookup, iequals. rewrite H.
  destruct c; vm_compute; reflexivity.
Qed.

Lemma to_lower_letter x : 97 <= to_lower x <= 122 -> is_space x = false.
Proof.
  unfold to_lower, is_space. destruct ((65 <=? x) && (x <=? 90)) eqn:E.
  - apply andb_true_iff in E as (E1 & E2). apply N.leb_le in E1, E2. intros _.
    destruct (N.eqb_spec x 32); [lia|]. destruct (N.leb_spec 9 x), (N.leb_spec x 13); cbn; try reflexivity; lia.
  - intros (H1 & H2). destruct (N.eqb_spec x 32); [lia|].
    destruct (N.leb_spec 9 x), (N.leb_spec x 13); cbn; try reflexivity; lia.
Qed.

Lemma spelling_no_space s : letters (lower s) = true -> forallb (fun x => negb (is_space x)) s = true.
Proof.
  unfold letters, lower. induction s as [|x s IH]; cbn [map forallb]; [reflexivity|].
  intro H. apply andb_true_iff in H as (Hx & Hs). apply andb_true_iff in Hx as (H1 & H2).
  apply N.leb_le in H1, H2. rewrite (to_lower_letter x (conj H1 H2)), (IH Hs). reflexivity.
Qed.

Lemma read_token_word w rest : forallb (fun x => negb (is_space x)) w = true ->
  (rest = [] \/ exists sp r, rest = sp :: r /\ is_space sp = true) ->
  read_token (w ++ rest) = (w, rest).
Proof.
  induction w as [|x w IH]; cbn [forallb app]; intros Hw Hr.
  - destruct Hr as [->|(sp & r & -> & Hs)]; [reflexivity|]. cbn. rewrite Hs. reflexivity.
  - apply andb_true_iff in Hw as (Hx & Hw). apply negb_true_iff in Hx. cbn [read_token].
    rewrite Hx, (IH Hw Hr). reflexivity.
Qed.

Lemma skip_ws_word w rest : w <> [] -> forallb (fun x => negb (is_space x)) w = true ->
  skip_ws (w ++ rest) = w ++ rest.
Proof.
  destruct w as [|x w]; [congruence|]. cbn [forallb app skip_ws]. intros _ H.
  apply andb_true_iff in H as (Hx & _). apply negb_true_iff in Hx. rewrite Hx. reflexivity.
Qed.

(* every case variant of every verb is that verb, whatever follows after whitespace *)
Theorem verbs_case_insensitive c spelling rest : lower spelling = verb_name c ->
  (rest = [] \/ exists sp r, rest = sp :: r /\ is_space sp = true) ->
  parse_command (spelling ++ rest) = Some (c, parse_args (S (length rest)) rest).
Proof.
  intros H Hr. unfold parse_command.
  assert (NS : forallb (fun x => negb (is_space x)) spelling = true).
  { apply spelling_no_space. rewrite H. apply verb_names_lower. }
  assert (NE : spelling <> []).
  { intro; subst. cbn in H. destruct c; discriminate. }
  rewrite skip_ws_word, read_token_word by assumption.
  rewrite (lookup_complete c spelling H). reflexivity.
Qed.

(* nothing but the documented verbs is accepted *)
Theorem only_verbs line c args : parse_command line = Some (c, args) ->
  lower (fst (read_token (skip_ws line))) = verb_name c.
Proof.
  unfold parse_command. destruct (read_token (skip_ws line)) as [verb rest]. cbn [fst].
  destruct (get_command_from_string verb) as [c'|] eqn:G; [|discriminate].
  intro H; inversion H; subst. apply (lookup_sound all_commands). exact G.
Qed.

(* any list of arguments written with the supported quoting is recovered exactly *)
Theorem quoting_roundtrip c spelling args : lower spelling = verb_name c ->
  parse_command (spelling ++ render_args args) = Some (c, args).
Proof.
  intro H. rewrite (verbs_case_insensitive c spelling (render_args args) H).
  - rewrite parse_args_render; [reflexivity|]. pose proof (render_args_length args). lia.
  - destruct args as [|a args]; [left; reflexivity|]. right. unfold render_args. cbn [map concat app].
    eexists. eexists. split; reflexivity.
Qed.
