(* Cmdline.v - model of parse_command / get_command_from_string (app/cmdline/src/command_parser.cpp):
   operator>>(std::string) (skip isspace, read to whitespace), the verb table compared with
   boost::iequals in the classic locale, and the std::quoted extraction of libstdc++ (delimiter: double quote,
   escape: backslash; an unterminated quote puts the stream in fail state and drops the argument). *)
From LibFtp Require Export Bytes.
Local Open Scope N_scope.

Definition DQ : N := 34.
Definition BSL : N := 92.

(* std::isspace in the "C" locale *)
Definition is_space (c : N) : bool := (c =? 32) || ((9 <=? c) && (c <=? 13)).

Fixpoint skip_ws (s : bytes) : bytes :=
  match s with
  | c :: s' => if is_space c then skip_ws s' else s
  | [] => []
  end.

(* characters up to the next whitespace *)
Fixpoint read_token (s : bytes) : bytes * bytes :=
  match s with
  | [] => ([], [])
  | c :: s' => if is_space c then ([], s) else let '(t, r) := read_token s' in (c :: t, r)
  end.

(* after the opening quote: Some (string, rest) at the closing quote, None when the input ends first *)
Fixpoint read_quoted (s : bytes) (acc : bytes) : option (bytes * bytes) :=
  match s with
  | [] => None
  | c :: s' =>
      if c =? BSL then
        match s' with
        | [] => None
        | e :: s'' => read_quoted s'' (e :: acc)
        end
      else if c =? DQ then Some (rev acc, s')
      else read_quoted s' (c :: acc)
  end.

(* while (iss >> std::quoted(arg)) args.push_back(arg); *)
Fixpoint parse_args (fuel : nat) (s : bytes) : list bytes :=
  match fuel with
  | O => []
  | S f =>
      match skip_ws s with
      | [] => []
      | c :: s2 =>
          if c =? DQ then
            match read_quoted s2 [] with
            | None => []
            | Some (a, rest) => a :: parse_args f rest
            end
          else let '(t, rest) := read_token (c :: s2) in t :: parse_args f rest
      end
  end.

Definition to_lower (c : N) : N := if (65 <=? c) && (c <=? 90) then c + 32 else c.
Definition lower (s : bytes) : bytes := map to_lower s.
Definition iequals (a b : bytes) : bool := bytes_eqb (lower a) (lower b).

Inductive command :=
| C_open
| C_mode
| C_active
| C_passive
| C_user
| C_logout
| C_close
| C_cd
| C_cdup
| C_ls
| C_put
| C_get
| C_rename
| C_pwd
| C_mkdir
| C_rmdir
| C_del
| C_stat
| C_syst
| C_type
| C_binary
| C_ascii
| C_size
| C_noop
| C_rhelp
| C_help
| C_exit.

Definition verb_name (c : command) : bytes :=
  match c with
  | C_open => [111; 112; 101; 110]
  | C_mode => [109; 111; 100; 101]
  | C_active => [97; 99; 116; 105; 118; 101]
  | C_passive => [112; 97; 115; 115; 105; 118; 101]
  | C_user => [117; 115; 101; 114]
  | C_logout => [108; 111; 103; 111; 117; 116]
  | C_close => [99; 108; 111; 115; 101]
  | C_cd => [99; 100]
  | C_cdup => [99; 100; 117; 112]
  | C_ls => [108; 115]
  | C_put => [112; 117; 116]
  | C_get => [103; 101; 116]
  | C_rename => [114; 101; 110; 97; 109; 101]
  | C_pwd => [112; 119; 100]
  | C_mkdir => [109; 107; 100; 105; 114]
  | C_rmdir => [114; 109; 100; 105; 114]
  | C_del => [100; 101; 108]
  | C_stat => [115; 116; 97; 116]
  | C_syst => [115; 121; 115; 116]
  | C_type => [116; 121; 112; 101]
  | C_binary => [98; 105; 110; 97; 114; 121]
  | C_ascii => [97; 115; 99; 105; 105]
  | C_size => [115; 105; 122; 101]
  | C_noop => [110; 111; 111; 112]
  | C_rhelp => [114; 104; 101; 108; 112]
  | C_help => [104; 101; 108; 112]
  | C_exit => [101; 120; 105; 116]
  end.

Definition all_commands : list command :=
  [C_open; C_mode; C_active; C_passive; C_user; C_logout; C_close; C_cd; C_cdup; C_ls; C_put; C_get; C_rename; C_pwd; C_mkdir; C_rmdir; C_del; C_stat; C_syst; C_type; C_binary; C_ascii; C_size; C_noop; C_rhelp; C_help; C_exit].

(* the chain of comparisons of get_command_from_string; None = cmdline_exception Invalid command. *)
Fixpoint lookup (l : list command) (s : bytes) : option command :=
  match l with
  | [] => None
  | c :: l' => if iequals s (verb_name c) then Some c else lookup l' s
  end.
Definition get_command_from_string (s : bytes) : option command := lookup all_commands s.

Definition parse_command (line : bytes) : option (command * list bytes) :=
  let '(verb, rest) := read_token (skip_ws line) in
  match get_command_from_string verb with
  | None => None
  | Some c => Some (c, parse_args (S (length rest)) rest)
  end.

(* ---- the supported quoting: double quotes, backslash before a double quote or a backslash ---- *)
Fixpoint escape (a : bytes) : bytes :=
  match a with
  | [] => []
  | c :: a' => if (c =? DQ) || (c =? BSL) then BSL :: c :: escape a' else c :: escape a'
  end.
Definition quote (a : bytes) : bytes := DQ :: escape a ++ [DQ].
Definition render_args (args : list bytes) : bytes := concat (map (fun a => 32 :: quote a) args).
