(* Tls_Global.v - C11 over EVERY history of calls, every state and every behaviour of the server: a client with a TLS
   context writes nothing but "AUTH TLS" in clear text - as long as the application does not go on with a client whose
   connect() came back with a negative reply (or failed).  That proviso is forced by the code: such a connect() leaves
   the control connection open, unsecured and usable ([clear_text_after_refused_auth_refuted] is the witness; recorded
   as a finding).

   Three "modes" a program can run in, each with a state invariant:
     MClosed : the control connection is closed            (anything but CtlConnect keeps it closed: nothing is written)
     MStrict : closed, or the socket object is a TLS socket (a write either fails or goes through the TLS layer)
     MLoose  : as MStrict, but the program may END by switching the socket back to plain (logout after a positive REIN,
               the tail of disconnect): nothing is claimed about the state it leaves *)
From LibFtp Require Import Bytes Decimal Reply Endpoint DataConn Client Client_Proofs.
Local Open Scope N_scope.

Inductive mode := MClosed | MStrict | MLoose.

Definition safe (w : world) : Prop := w_open w = false \/ w_ssl w = true.
Definition inv (m : mode) (w : world) : Prop := match m with MClosed => w_open w = false | _ => safe w end.

Definition terminal (p : prog) : Prop := match p with Ret _ => True | _ => False end.

Fixpoint nd (m : mode) (p : prog) : Prop :=
  match p with
  | CtlConnect _ _ _ => False
  | Ret _ | Throw => True
  | CtlSetSsl on k =>
      match m with
      | MClosed => nd m k
      | MStrict => on = true /\ nd m k
      | MLoose => if on then nd m k else terminal k
      end
  | CtlDisconnect k => nd MClosed k
  | IsOpen k => nd m (k true) /\ nd MClosed (k false)
  | CheckArg _ k | Send _ _ k | SendRaw _ k | SendAdv _ k | Notify _ k | SetTypeCfg _ k | CtlHandshake k
  | CtlTlsShutdown k | DNew k | DConnect _ _ k | DListenP k | DAccept k | DHandshakeP k | DDisconnect _ k
  | Scope k => nd m k
  | Recv k => forall r, nd m (k r)
  | GetCfg k => forall c, nd m (k c)
  | IsSsl k | Poll k => forall b, nd m (k b)
  | PumpIn k | PumpOut k => forall r, nd m (k r)
  | PumpInList k => forall t, nd m (k t)
  end.

(* ------------------------------------------------------------------ what may be added to the trace *)
Definition okev (e : event) : Prop :=
  match e with EWire false _ l => l = AUTH_TLS | _ => True end.

Definition gx (w w' : world) : Prop := exists tr, w_trace w' = w_trace w ++ tr /\ Forall okev tr.

Lemma gx_refl w : gx w w.
Proof. exists []. rewrite app_nil_r. split; [reflexivity|constructor]. Qed.
Lemma gx_trans a b c : gx a b -> gx b c -> gx a c.
Proof.
  intros (t1 & E1 & F1) (t2 & E2 & F2). exists (t1 ++ t2). rewrite E2, E1, app_assoc. split; [reflexivity|].
  apply Forall_app. split; assumption.
Qed.
Lemma gx_same a b : w_trace b = w_trace a -> gx a b.
Proof. intro H. exists []. rewrite app_nil_r. split; [exact H|constructor]. Qed.
Lemma gx_emit w es : Forall okev es -> gx w (emit w es).
Proof. intro H. exists es. split; [reflexivity|exact H]. Qed.

Lemma ok_obs obs e : Forall okev (map (fun o => EObs o e) obs).
Proof. induction obs as [|o obs IH]; cbn; constructor; [exact I|exact IH]. Qed.
Lemma ok_io ev : Forall okev (map EIo ev).
Proof. induction ev as [|e ev IH]; cbn; constructor; [exact I|exact IH]. Qed.
Lemma gx_notify w e : gx w (notify w e).
Proof. unfold notify. apply gx_emit. apply ok_obs. Qed.

Lemma gx_emit_then w w' es : w_trace w' = w_trace w ++ es -> Forall okev es -> gx w w'.
Proof. intros H F. exists es. split; assumption. Qed.

Ltac okall := repeat (first [apply Forall_nil | apply Forall_cons; [exact I|]]).
Ltac gsame := apply gx_same; reflexivity.
Ltac gcalc := first [ gsame
  | (unfold gx; eexists; split;
     [cbn [w_trace emit set_trace set_queues set_io set_data set_cfg set_ctl set_obs release_pending notify];
      rewrite <- ?app_assoc; reflexivity|okall]) ].

(* ------------------------------------------------------------------ the invariants *)
Lemma inv_same m w w' : w_open w' = w_open w -> w_ssl w' = w_ssl w -> inv m w -> inv m w'.
Proof. intros O S. destruct m; unfold inv, safe; rewrite O, ?S; auto. Qed.

Lemma closed_inv m w : w_open w = false -> inv m w.
Proof. intro H. destruct m; unfold inv, safe; auto. Qed.

Ltac isame := eapply inv_same; [reflexivity|reflexivity|eassumption].

Lemma peer_react_ctl w : w_open (peer_react w) = w_open w /\ w_ssl (peer_react w) = w_ssl w.
Proof. unfold peer_react. destruct (w_cur w); split; reflexivity. Qed.

(* a write from a state that satisfies the invariant: it fails, or the line goes through the TLS layer *)
Lemma gx_do_send m w line w' : inv m w -> do_send w line = Some w' -> gx w w' /\ inv m w'.
Proof.
  intros I. unfold do_send.
  assert (Sf : safe w) by (destruct m; [left; exact I|exact I|exact I]).
  change (w_open (notify w (ORequest line))) with (w_open w).
  change (w_ssl (notify w (ORequest line))) with (w_ssl w).
  change (w_tls_up (notify w (ORequest line))) with (w_tls_up w).
  change (w_peer_closed (notify w (ORequest line))) with (w_peer_closed w).
  destruct (w_open w) eqn:Op; cbn [negb]; [|discriminate].
  destruct Sf as [C|Ss]; [congruence|]. rewrite Ss. cbn [andb].
  destruct (w_tls_up w) eqn:Up; cbn [negb]; [|discriminate].
  set (w1 := notify w (ORequest line)).
  assert (G1 : gx w w1) by apply gx_notify.
  assert (I1 : inv m w1) by (unfold w1; eapply inv_same; [reflexivity|reflexivity|exact I]).
  destruct (w_peer_closed w); intro H; inversion H; subst; clear H.
  - split.
    + eapply gx_trans; [exact G1|]. apply gx_emit. okall.
    + eapply inv_same; [reflexivity|reflexivity|exact I1].
  - cbn [andb].
    set (w2 := emit w1 [EWire true (w_ord w1) line]).
    assert (G2 : gx w1 w2) by (unfold w2; apply gx_emit; okall).
    split.
    + eapply gx_trans; [exact G1|]. eapply gx_trans; [exact G2|]. apply gx_same. apply peer_react_trace.
    + destruct (peer_react_ctl w2) as (A & B).
      eapply inv_same; [exact A|exact B|exact I1].
Qed.

Lemma gx_close_data w : gx w (close_data w) /\ w_open (close_data w) = w_open w /\ w_ssl (close_data w) = w_ssl w.
Proof.
  unfold close_data. destruct (w_data w) as [d|]; [|split; [apply gx_refl|split; reflexivity]].
  destruct (d_sock d), (d_acc d); cbv zeta; (split; [|split; reflexivity]).
  - exists [EData DClose; EData DAccClose]. split; [cbn [w_trace set_data emit set_trace release_pending set_queues]; rewrite <- app_assoc; reflexivity|okall].
  - exists [EData DClose]. split; [reflexivity|okall].
  - exists [EData DAccClose]. split; [reflexivity|okall].
  - apply gx_same. reflexivity.
Qed.

Lemma gx_ctl_disconnect w : gx w (snd (ctl_disconnect w)) /\ w_open (snd (ctl_disconnect w)) = false.
Proof.
  unfold ctl_disconnect. cbn [snd]. split; [|reflexivity].
  eexists. split; [cbn [w_trace set_queues set_ctl emit set_trace]; reflexivity|].
  destruct (w_ssl w); cbn [app]; okall.
Qed.

(* ------------------------------------------------------------------ the induction over programs *)
Definition fin (m : mode) (w : world) : Prop := match m with MLoose => True | _ => inv m w end.

Lemma fin_of_inv m w : inv m w -> fin m w.
Proof. destruct m; cbn; auto. Qed.

Lemma run_nd : forall p m w, nd m p -> inv m w -> gx w (snd (run p w)) /\ fin m (snd (run p w)).
Proof.
  induction p as [v| |a k IH|verb arg k IH|line k IH|a k IH|k IH|e k IH|k IH|t k IH|k IH|k IH|h pt k IH|on k IH|k IH|k IH|k IH
                 |k IH|ip port k IH|k IH|k IH|k IH|g k IH|k IH|k IH|k IH|k IH|body IH]; intros m w N I; cbn [run]; cbn [nd] in N.
  - split; [apply gx_refl|apply fin_of_inv; exact I].
  - split; [apply gx_refl|apply fin_of_inv; exact I].
  - destruct (has_crlf a); [split; [apply gx_refl|apply fin_of_inv; exact I]|apply IH; assumption].
  - (* Send *)
    destruct arg as [a|].
    + destruct (has_crlf a); [split; [apply gx_refl|apply fin_of_inv; exact I]|].
      destruct (do_send w _) as [w'|] eqn:E; cbn [snd].
      * destruct (gx_do_send _ _ _ _ I E) as (G & I').
        destruct (IH m w' N I') as (G2 & F2). split; [eapply gx_trans; eauto|exact F2].
      * split; [apply gx_notify|apply fin_of_inv; isame].
    + destruct (do_send w _) as [w'|] eqn:E; cbn [snd].
      * destruct (gx_do_send _ _ _ _ I E) as (G & I').
        destruct (IH m w' N I') as (G2 & F2). split; [eapply gx_trans; eauto|exact F2].
      * split; [apply gx_notify|apply fin_of_inv; isame].
  - destruct (do_send w _) as [w'|] eqn:E; cbn [snd].
    + destruct (gx_do_send _ _ _ _ I E) as (G & I').
      destruct (IH m w' N I') as (G2 & F2). split; [eapply gx_trans; eauto|exact F2].
    + split; [apply gx_notify|apply fin_of_inv; isame].
  - destruct (match a with AdvEprt => _ | AdvPort => _ end) as [line|]; [|split; [apply gx_refl|apply fin_of_inv; exact I]].
    destruct (do_send w _) as [w'|] eqn:E; cbn [snd].
    + destruct (gx_do_send _ _ _ _ I E) as (G & I').
      destruct (IH m w' N I') as (G2 & F2). split; [eapply gx_trans; eauto|exact F2].
    + split; [apply gx_notify|apply fin_of_inv; isame].
  - (* Recv *)
    destruct (negb (w_open w)); [split; [apply gx_refl|apply fin_of_inv; exact I]|].
    destruct (w_backlog w) as [|[t [r|]] rest].
    + destruct (w_peer_closed w); (split; [apply gx_refl|apply fin_of_inv; exact I]).
    + destruct (code r =? 421).
      * destruct (ctl_disconnect _) as [ok w2] eqn:D.
        destruct (gx_ctl_disconnect (emit (set_queues w rest (w_pending w)) [ERecv t r])) as (G & C).
        rewrite D in G, C. cbn [snd] in G, C.
        assert (G0 : gx w w2). { eapply gx_trans; [|exact G]. gcalc. }
        destruct ok; cbn [snd].
        -- assert (I2 : inv m (notify w2 (OReply r))) by (apply closed_inv; exact C).
           destruct (IH r m _ (N r) I2) as (G2 & F2).
           split; [eapply gx_trans; [exact G0|]; eapply gx_trans; [apply gx_notify|exact G2]|exact F2].
        -- split; [exact G0|apply fin_of_inv; apply closed_inv; exact C].
      * assert (I2 : inv m (notify (emit (set_queues w rest (w_pending w)) [ERecv t r]) (OReply r))) by isame.
        destruct (IH r m _ (N r) I2) as (G2 & F2).
        split; [|exact F2]. eapply gx_trans; [|exact G2].
        apply (gx_trans _ (emit (set_queues w rest (w_pending w)) [ERecv t r]) _); [gcalc|apply gx_notify].
    + cbn [snd]. split; [gsame|apply fin_of_inv; isame].
  - (* Notify *)
    assert (I2 : inv m (notify w e)) by isame.
    destruct (IH m _ N I2) as (G2 & F2). split; [eapply gx_trans; [apply gx_notify|exact G2]|exact F2].
  - apply IH; [apply N|exact I].
  - (* SetTypeCfg *)
    match goal with |- context [run k ?W] => assert (I2 : inv m W) by isame; destruct (IH m W N I2) as (G2 & F2) end.
    split; [eapply gx_trans; [|exact G2]; gcalc|exact F2].
  - (* IsOpen *)
    destruct N as (Nt & Nf). destruct (w_open w) eqn:Op.
    + apply IH; assumption.
    + destruct (IH false MClosed w Nf Op) as (G2 & F2). split; [exact G2|].
      apply fin_of_inv. apply closed_inv. exact F2.
  - apply IH; [apply N|exact I].
  - destruct N.
  - (* CtlSetSsl *)
    match goal with |- context [run k ?W] => set (W1 := W) end.
    assert (G1 : gx w W1) by (unfold W1; gcalc).
    destruct m.
    + assert (I2 : inv MClosed W1) by exact I.
      destruct (IH MClosed W1 N I2) as (G2 & F2). split; [eapply gx_trans; eauto|exact F2].
    + destruct N as (-> & N).
      assert (I2 : inv MStrict W1) by (right; reflexivity).
      destruct (IH MStrict W1 N I2) as (G2 & F2). split; [eapply gx_trans; eauto|exact F2].
    + destruct on.
      * assert (I2 : inv MLoose W1) by (right; reflexivity).
        destruct (IH MLoose W1 N I2) as (G2 & F2). split; [eapply gx_trans; eauto|exact F2].
      * destruct k; try destruct N. cbn [run snd]. split; [exact G1|constructor].
  - (* CtlHandshake *)
    destruct (w_last_tls_ok w && negb (w_peer_closed w)); cbn [snd].
    + match goal with |- context [run k ?W] => assert (I2 : inv m W) by isame; destruct (IH m W N I2) as (G2 & F2) end.
      split; [eapply gx_trans; [|exact G2]; gcalc|exact F2].
    + split; [gcalc|apply fin_of_inv; isame].
  - (* CtlTlsShutdown *)
    destruct (w_tls_up w && w_tls_clean w && negb (w_peer_closed w)); cbn [snd].
    + match goal with |- context [run k ?W] => assert (I2 : inv m W) by isame; destruct (IH m W N I2) as (G2 & F2) end.
      split; [eapply gx_trans; [|exact G2]; gcalc|exact F2].
    + split; [gcalc|apply fin_of_inv; isame].
  - (* CtlDisconnect *)
    destruct (ctl_disconnect w) as [ok w1] eqn:D.
    destruct (gx_ctl_disconnect w) as (G & C). rewrite D in G, C. cbn [snd] in G, C.
    destruct ok; cbn [snd].
    + destruct (IH MClosed w1 N C) as (G2 & F2). split; [eapply gx_trans; eauto|].
      apply fin_of_inv. apply closed_inv. exact F2.
    + split; [exact G|apply fin_of_inv; apply closed_inv; exact C].
  - (* DNew *)
    match goal with |- context [run k ?W] => assert (I2 : inv m W) by isame; destruct (IH m W N I2) as (G2 & F2) end.
    split; [eapply gx_trans; [|exact G2]; gcalc|exact F2].
  - destruct (dp_reachable (w_plan w)); cbn [snd].
    + match goal with |- context [run k ?W] => assert (I2 : inv m W) by isame; destruct (IH m W N I2) as (G2 & F2) end.
      split; [eapply gx_trans; [|exact G2]; gcalc|exact F2].
    + split; [gcalc|apply fin_of_inv; isame].
  - match goal with |- context [run k ?W] => assert (I2 : inv m W) by isame; destruct (IH m W N I2) as (G2 & F2) end.
    split; [eapply gx_trans; [|exact G2]; gcalc|exact F2].
  - destruct (dp_reachable (w_plan w)); cbn [snd].
    + match goal with |- context [run k ?W] => assert (I2 : inv m W) by isame; destruct (IH m W N I2) as (G2 & F2) end.
      split; [eapply gx_trans; [|exact G2]; gcalc|exact F2].
    + split; [apply gx_refl|apply fin_of_inv; exact I].
  - (* DHandshakeP *)
    destruct (dp_tls_ok (w_plan w)); cbn [snd].
    + match goal with |- context [run k ?W] => assert (I2 : inv m W) by isame; destruct (IH m W N I2) as (G2 & F2) end.
      split; [eapply gx_trans; [|exact G2]; gcalc|exact F2].
    + split; [gcalc|apply fin_of_inv; isame].
  - (* DDisconnect *)
    destruct (w_data w) as [d|]; [|apply IH; assumption].
    destruct (d_ssl d && negb (dp_shutdown_ok (w_plan w))); cbn [snd].
    + split; [gcalc|apply fin_of_inv; isame].
    + match goal with |- context [close_data ?W] => set (W1 := W) end.
      destruct (gx_close_data W1) as (Gc & Oc & Sc).
      assert (I2 : inv m (close_data W1)).
      { eapply inv_same; [| |exact I]; [rewrite Oc; reflexivity|rewrite Sc; reflexivity]. }
      destruct (IH m _ N I2) as (G2 & F2). split; [|exact F2].
      eapply gx_trans; [|exact G2]. eapply gx_trans; [|exact Gc].
      unfold W1. destruct (d_ssl d), g; cbn [app]; gcalc.
  - (* PumpIn *)
    destruct (data_recv _ _ _ _ _) as [[ev r] cb'].
    match goal with |- context [set_io ?A ?B] => set (W1 := set_io A B) end.
    assert (G1 : gx w W1) by (unfold W1; eapply gx_emit_then; [reflexivity|apply ok_io]).
    assert (I1 : inv m W1) by (unfold W1; isame).
    destruct r; cbn [snd]; try (split; [exact G1|apply fin_of_inv; exact I1]);
      (match goal with |- context [run (k ?R) W1] => destruct (IH R m W1 (N R) I1) as (G2 & F2) end;
       split; [eapply gx_trans; eauto|exact F2]).
  - (* PumpInList *)
    destruct (data_recv _ _ _ _ _) as [[ev r] cb'].
    match goal with |- context [emit w ?E] => set (W1 := emit w E) end.
    assert (G1 : gx w W1) by (unfold W1; eapply gx_emit_then; [reflexivity|apply ok_io]).
    assert (I1 : inv m W1) by (unfold W1; isame).
    destruct r; cbn [snd]; try (split; [exact G1|apply fin_of_inv; exact I1]);
      (match goal with |- context [run (k ?R) W1] => destruct (IH R m W1 (N R) I1) as (G2 & F2) end;
       split; [eapply gx_trans; eauto|exact F2]).
  - (* PumpOut *)
    destruct (data_send _ _ _ _) as [[ev r] cb'].
    match goal with |- context [set_io ?A ?B] => set (W1 := set_io A B) end.
    assert (G1 : gx w W1) by (unfold W1; eapply gx_emit_then; [reflexivity|apply ok_io]).
    assert (I1 : inv m W1) by (unfold W1; isame).
    destruct r; cbn [snd]; try (split; [exact G1|apply fin_of_inv; exact I1]);
      (match goal with |- context [run (k ?R) W1] => destruct (IH R m W1 (N R) I1) as (G2 & F2) end;
       split; [eapply gx_trans; eauto|exact F2]).
  - (* Poll *)
    destruct (io_cb (w_io w)) as [answers|]; [|apply IH; [apply N|exact I]].
    destruct (poll answers) as [a answers'].
    match goal with |- context [run (k a) ?W] => assert (I2 : inv m W) by isame; destruct (IH a m W (N a) I2) as (G2 & F2) end.
    split; [eapply gx_trans; [|exact G2]; gcalc|exact F2].
  - (* Scope *)
    destruct (run body w) as [o w1] eqn:R. cbn [snd].
    destruct (IH m w N I) as (G1 & F1). rewrite R in G1, F1. cbn [snd] in G1, F1.
    destruct (gx_close_data w1) as (Gc & Oc & Sc).
    split.
    + eapply gx_trans; [exact G1|]. eapply gx_trans; [exact Gc|]. gsame.
    + destruct m; cbn [fin] in *; try (exact Logic.I).
      * change (w_open (close_data w1) = false). rewrite Oc. exact F1.
      * unfold inv, safe in *. change (w_open (close_data w1) = false \/ w_ssl (close_data w1) = true).
        rewrite Oc, Sc. exact F1.
Qed.

(* ------------------------------------------------------------------ connect: the clear-text phase *)
Definition neg_ret (v : retv) : Prop :=
  match v with RvReplies rs => is_negative (last rs default_reply) = true | _ => False end.

(* programs of the clear-text phase: the only line they write is AUTH TLS; they end with a negative reply (or fail), or
   switch the socket to TLS and go on with a program of the strict mode *)
Fixpoint pre (p : prog) : Prop :=
  match p with
  | Ret v => neg_ret v
  | Throw => True
  | CheckArg _ k | Notify _ k | CtlConnect _ _ k => pre k
  | Recv k => forall r, pre (k r)
  | GetCfg k => forall c, c_tls c = true -> pre (k c)
  | SendRaw line k => line = AUTH_TLS /\ pre k
  | CtlSetSsl on k => on = true /\ nd MStrict k
  | _ => False
  end.

(* the outcome of a connect after which the connection may be left open in clear text *)
Definition bad_outcome (o : outcome) : Prop := match o with OReturn v => neg_ret v | _ => True end.

Lemma okev_auth b o : okev (EWire b o AUTH_TLS).
Proof. destruct b; [exact I|reflexivity]. Qed.

Lemma gx_do_send_auth w w' : do_send w AUTH_TLS = Some w' -> gx w w' /\ w_cfg w' = w_cfg w.
Proof.
  unfold do_send. destruct (negb _); [discriminate|]. destruct (_ && negb _); [discriminate|].
  set (w1 := notify w (ORequest AUTH_TLS)).
  assert (G1 : gx w w1) by apply gx_notify.
  destruct (w_peer_closed w1); intro H; inversion H; subst; clear H.
  - split; [|reflexivity]. eapply gx_trans; [exact G1|]. apply gx_emit. okall.
  - split.
    + eapply gx_trans; [exact G1|].
      match goal with |- gx w1 (peer_react ?W) => apply (gx_trans _ W _) end.
      * apply gx_emit. constructor; [apply okev_auth|constructor].
      * apply gx_same. apply peer_react_trace.
    + unfold peer_react. destruct (w_cur _); reflexivity.
Qed.

Lemma run_pre : forall p w, pre p -> c_tls (w_cfg w) = true ->
  gx w (snd (run p w)) /\ (safe (snd (run p w)) \/ bad_outcome (fst (run p w))).
Proof.
  induction p as [v| |a k IH|verb arg k IH|line k IH|a k IH|k IH|e k IH|k IH|t k IH|k IH|k IH|h pt k IH|on k IH|k IH|k IH|k IH
                 |k IH|ip port k IH|k IH|k IH|k IH|g k IH|k IH|k IH|k IH|k IH|body IH]; intros w N T; cbn [run]; cbn [pre] in N;
    try (destruct N; fail).
  - split; [apply gx_refl|right; exact N].
  - split; [apply gx_refl|right; exact Logic.I].
  - destruct (has_crlf a); [split; [apply gx_refl|right; exact Logic.I]|apply IH; assumption].
  - (* SendRaw *)
    destruct N as (-> & N).
    destruct (do_send w AUTH_TLS) as [w'|] eqn:E; cbn [snd fst].
    + destruct (gx_do_send_auth _ _ E) as (G & C).
      assert (T' : c_tls (w_cfg w') = true) by (rewrite C; exact T).
      destruct (IH w' N T') as (G2 & F2). split; [eapply gx_trans; eauto|exact F2].
    + split; [apply gx_notify|right; exact Logic.I].
  - (* Recv *)
    destruct (negb (w_open w)); [split; [apply gx_refl|right; exact Logic.I]|].
    destruct (w_backlog w) as [|[t [r|]] rest].
    + destruct (w_peer_closed w); (split; [apply gx_refl|right; exact Logic.I]).
    + destruct (code r =? 421).
      * destruct (ctl_disconnect _) as [ok w2] eqn:D.
        destruct (gx_ctl_disconnect (emit (set_queues w rest (w_pending w)) [ERecv t r])) as (G & C).
        assert (Cf : w_cfg (snd (ctl_disconnect (emit (set_queues w rest (w_pending w)) [ERecv t r]))) = w_cfg w) by reflexivity.
        rewrite D in G, C, Cf. cbn [snd] in G, C, Cf.
        assert (G0 : gx w w2). { eapply gx_trans; [|exact G]. gcalc. }
        destruct ok; cbn [snd fst].
        -- assert (T2 : c_tls (w_cfg (notify w2 (OReply r))) = true) by (cbn [w_cfg notify emit set_trace]; rewrite Cf; exact T).
           destruct (IH r _ (N r) T2) as (G2 & F2).
           split; [eapply gx_trans; [exact G0|]; eapply gx_trans; [apply gx_notify|exact G2]|exact F2].
        -- split; [exact G0|right; exact Logic.I].
      * assert (T2 : c_tls (w_cfg (notify (emit (set_queues w rest (w_pending w)) [ERecv t r]) (OReply r))) = true) by exact T.
        destruct (IH r _ (N r) T2) as (G2 & F2).
        split; [|exact F2]. eapply gx_trans; [|exact G2].
        apply (gx_trans _ (emit (set_queues w rest (w_pending w)) [ERecv t r]) _); [gcalc|apply gx_notify].
    + cbn [snd fst]. split; [gsame|right; exact Logic.I].
  - (* Notify *)
    assert (T2 : c_tls (w_cfg (notify w e)) = true) by exact T.
    destruct (IH _ N T2) as (G2 & F2). split; [eapply gx_trans; [apply gx_notify|exact G2]|exact F2].
  - apply IH; [apply N; exact T|exact T].
  - (* CtlConnect *)
    match goal with |- context [match w_script ?w0 with _ => _ end] => set (W0 := w0) end.
    assert (X0 : gx w W0) by (unfold W0; destruct (w_open w); gcalc).
    assert (C0 : w_cfg W0 = w_cfg w) by (unfold W0; destruct (w_open w); reflexivity).
    destruct (w_script W0) as [|s rest]; cbn [snd fst].
    + split; [eapply gx_trans; [exact X0|gcalc]|right; exact Logic.I].
    + destruct (negb (s_reachable s)); cbn [snd fst].
      * split; [|right; exact Logic.I]. eapply gx_trans; [exact X0|].
        eexists. split; [cbn [w_trace emit set_trace]; reflexivity|okall].
      * match goal with |- context [run k ?W] => assert (T2 : c_tls (w_cfg W) = true) by (cbn [w_cfg emit set_trace]; rewrite C0; exact T);
          destruct (IH W N T2) as (G2 & F2) end.
        split; [|exact F2]. eapply gx_trans; [exact X0|]. eapply gx_trans; [|exact G2].
        eexists. split; [cbn [w_trace emit set_trace]; reflexivity|okall].
  - (* CtlSetSsl *)
    destruct N as (-> & N).
    match goal with |- context [run k ?W] => set (W1 := W) end.
    assert (G1 : gx w W1) by (unfold W1; gcalc).
    assert (I2 : inv MStrict W1) by (right; reflexivity).
    destruct (run_nd k MStrict W1 N I2) as (G2 & F2).
    split; [eapply gx_trans; eauto|left; exact F2].
Qed.

(* ------------------------------------------------------------------ the operations *)
Ltac ndt := repeat (cbn [nd terminal]; first
  [ exact Logic.I | reflexivity | intro | split
  | match goal with
    | |- nd _ (if ?b then _ else _) => destruct b
    | |- nd _ (match ?x with _ => _ end) => destruct x
    | |- nd _ (let _ := _ in _) => cbv zeta
    end ]).

Lemma nd_process_login m u pw acc k : (forall a, nd m (k a)) -> nd m (process_login u pw acc k).
Proof. intro K. unfold process_login, process_command, process_raw. ndt; apply K. Qed.

Lemma nd_login m u pw : nd m (op_login u pw).
Proof. unfold op_login. apply nd_process_login. intro a. exact Logic.I. Qed.

Lemma nd_simple m v a : nd m (op_simple v a).
Proof. unfold op_simple, process_command. ndt. Qed.

Lemma nd_set_type m t : nd m (op_set_type t).
Proof. unfold op_set_type, process_command. ndt. Qed.

Lemma nd_rename m a b : nd m (op_rename a b).
Proof. unfold op_rename, process_command. ndt. Qed.

Lemma nd_cdc m verb arg acc k1 k2 : (forall a, nd m (k1 a)) -> (forall a, nd m (k2 a)) ->
  nd m (create_data_connection verb arg acc k1 k2).
Proof.
  intros K1 K2. unfold create_data_connection, process_command. cbn [nd]. intro c.
  destruct (c_mode c), (c_rfc2428 c); ndt; first [apply K1 | apply K2].
Qed.

Lemma nd_finish m acc : nd m (finish_transfer acc).
Proof. unfold finish_transfer, process_abort, process_command. ndt. Qed.

Lemma nd_download m path : nd m (op_download path).
Proof.
  unfold op_download. cbn [nd]. apply nd_cdc; intro a; [|exact Logic.I].
  cbn [nd]. intro r. apply nd_finish.
Qed.

Lemma nd_upload m v path : nd m (op_upload v path).
Proof.
  unfold op_upload. cbn [nd]. apply nd_cdc; intro a; [|exact Logic.I].
  cbn [nd]. intro r. apply nd_finish.
Qed.

Lemma nd_list m path names : nd m (op_list path names).
Proof.
  unfold op_list. cbn [nd]. apply nd_cdc; intro a; [|exact Logic.I]. ndt.
Qed.

Lemma nd_disconnect g : nd MStrict (op_disconnect g).
Proof. unfold op_disconnect, process_command. destruct g; ndt. Qed.

Lemma nd_logout : nd MLoose op_logout.
Proof. unfold op_logout, process_command. ndt. Qed.

Lemma pre_connect h p l : pre (op_connect h p l).
Proof.
  assert (LP : forall acc, nd MStrict (match l with
                | None => Ret (RvReplies acc)
                | Some (u, pw) => process_login u pw acc (fun acc' => Ret (RvReplies acc')) end)).
  { intro acc. destruct l as [[u pw]|]; [apply nd_process_login; intro; exact Logic.I|exact Logic.I]. }
  assert (CT : forall acc lst, last acc default_reply = lst ->
    pre (if is_negative lst then Ret (RvReplies acc) else
         GetCfg (fun cfg => if c_tls cfg then
            process_raw AUTH_TLS (fun a => if is_negative a then Ret (RvReplies (acc ++ [a]))
              else CtlSetSsl true (CtlHandshake (match l with
                | None => Ret (RvReplies (acc ++ [a]))
                | Some (u, pw) => process_login u pw (acc ++ [a]) (fun acc' => Ret (RvReplies acc')) end)))
          else match l with
                | None => Ret (RvReplies acc)
                | Some (u, pw) => process_login u pw acc (fun acc' => Ret (RvReplies acc')) end))).
  { intros acc lst L. destruct (is_negative lst) eqn:Ng.
    - cbn [pre neg_ret]. rewrite L. exact Ng.
    - cbn [pre]. intros c Tc. rewrite Tc. unfold process_raw. cbn [pre]. split; [reflexivity|]. intro a.
      destruct (is_negative a) eqn:Na.
      + cbn [pre neg_ret]. rewrite last_last. exact Na.
      + cbn [pre nd]. split; [reflexivity|]. apply LP. }
  unfold op_connect. cbv zeta.
  assert (B : pre (CtlConnect h p (Notify (OConnected h p) (Recv (fun g =>
                if code g =? 120 then Recv (fun g2 =>
                  (if is_negative g2 then Ret (RvReplies [g; g2]) else
                   GetCfg (fun cfg => if c_tls cfg then
                     process_raw AUTH_TLS (fun a => if is_negative a then Ret (RvReplies ([g; g2] ++ [a]))
                       else CtlSetSsl true (CtlHandshake (match l with
                         | None => Ret (RvReplies ([g; g2] ++ [a]))
                         | Some (u, pw) => process_login u pw ([g; g2] ++ [a]) (fun acc' => Ret (RvReplies acc')) end)))
                   else match l with
                         | None => Ret (RvReplies [g; g2])
                         | Some (u, pw) => process_login u pw [g; g2] (fun acc' => Ret (RvReplies acc')) end)))
                else (if is_negative g then Ret (RvReplies [g]) else
                   GetCfg (fun cfg => if c_tls cfg then
                     process_raw AUTH_TLS (fun a => if is_negative a then Ret (RvReplies ([g] ++ [a]))
                       else CtlSetSsl true (CtlHandshake (match l with
                         | None => Ret (RvReplies ([g] ++ [a]))
                         | Some (u, pw) => process_login u pw ([g] ++ [a]) (fun acc' => Ret (RvReplies acc')) end)))
                   else match l with
                         | None => Ret (RvReplies [g])
                         | Some (u, pw) => process_login u pw [g] (fun acc' => Ret (RvReplies acc')) end))))))).
  { cbn [pre]. intro g. destruct (code g =? 120).
    - cbn [pre]. intro g2. apply (CT [g; g2] g2). reflexivity.
    - apply (CT [g] g). reflexivity. }
  destruct l as [[u pw]|]; cbn [pre]; exact B.
Qed.

(* ------------------------------------------------------------------ one call *)
Definition is_connect (a : api) : Prop := match a with AConnect _ _ _ => True | _ => False end.

(* any call but logout, from a state in which the control connection is closed or secured, whatever the server does:
   nothing but AUTH TLS is written in clear text, and the connection is again closed or secured afterwards - unless the
   call is a connect() that came back with a negative reply or failed *)
Theorem step_clear_text a w : c_tls (w_cfg w) = true -> safe w -> a <> ALogout ->
  gx w (snd (step w a)) /\ (safe (snd (step w a)) \/ (is_connect a /\ bad_outcome (fst (step w a)))).
Proof.
  intros T Sf NL.
  assert (S0 : forall i, inv MStrict (set_io w i)) by (intro i; exact Sf).
  assert (G0 : forall i, gx w (set_io w i)) by (intro i; apply gx_same; reflexivity).
  assert (ST : forall p i, nd MStrict p ->
            gx w (snd (run p (set_io w i))) /\ (safe (snd (run p (set_io w i))) \/ (is_connect a /\ bad_outcome (fst (run p (set_io w i)))))).
  { intros p i N. destruct (run_nd p MStrict _ N (S0 i)) as (G & F). split; [eapply gx_trans; [apply G0|exact G]|left; exact F]. }
  destruct a as [h p l|u pw| |v arg|t|x y|path cb f|uv path ch cb|path names|g|o|o|md|b]; unfold step; cbn [prog_of].
  - assert (T0 : c_tls (w_cfg (set_io w (io_of (AConnect h p l)))) = true) by exact T.
    destruct (run_pre _ _ (pre_connect h p l) T0) as (G & F).
    split; [eapply gx_trans; [apply G0|exact G]|]. destruct F as [F|F]; [left; exact F|right; split; [exact Logic.I|exact F]].
  - apply ST. apply nd_login.
  - congruence.
  - apply ST. apply nd_simple.
  - apply ST. apply nd_set_type.
  - apply ST. apply nd_rename.
  - apply ST. apply nd_download.
  - apply ST. apply nd_upload.
  - apply ST. apply nd_list.
  - apply ST. apply nd_disconnect.
  - split; [apply gx_same; reflexivity|left; exact Sf].
  - split; [apply gx_same; reflexivity|left; exact Sf].
  - split; [apply gx_same; reflexivity|left; exact Sf].
  - split; [apply gx_same; reflexivity|left; exact Sf].
Qed.

(* the logout call itself: REIN and its replies travel inside TLS (what follows a positive reply is outside the span
   the property covers) *)
Theorem logout_clear_text w : safe w -> gx w (snd (step w ALogout)).
Proof.
  intro Sf. unfold step. cbn [prog_of].
  destruct (run_nd op_logout MLoose (set_io w (io_of ALogout)) nd_logout Sf) as (G & _).
  eapply gx_trans; [|exact G]. apply gx_same. reflexivity.
Qed.

(* ------------------------------------------------------------------ every history *)
(* for every history of calls without logout, from every state in which the control connection is closed or secured,
   against every server: if every connect() of the history that came back at all came back with a positive last reply
   - i.e. the application did not go on after a refused or failed connect -, every line the client wrote in clear text
   is AUTH TLS *)
Theorem history_clear_text : forall cs w, c_tls (w_cfg w) = true -> safe w -> Forall (fun a => a <> ALogout) cs ->
  (forall a o, In (a, o) (combine cs (fst (steps w cs))) -> is_connect a -> ~ bad_outcome o) ->
  gx w (snd (steps w cs)) /\ safe (snd (steps w cs)).
Proof.
  induction cs as [|a cs IH]; intros w T Sf NL H.
  - split; [apply gx_refl|exact Sf].
  - inversion NL as [|? ? Na Ncs]; subst.
    destruct (step_clear_text a w T Sf Na) as (G & F).
    pose proof (step_keeps_tls_config a w) as KK. unfold keeps in KK. destruct KK as (K & _).
    cbn [steps] in *. destruct (step w a) as [o w1] eqn:St. cbn [snd fst] in *.
    assert (S1 : safe w1).
    { destruct F as [F|(Ca & Bo)]; [exact F|]. exfalso. apply (H a o); [|exact Ca|exact Bo].
      destruct o; try destruct (steps w1 cs); cbn [fst combine In]; left; reflexivity. }
    assert (T1 : c_tls (w_cfg w1) = true) by (rewrite K; exact T).
    destruct o.
    + assert (H1 : forall a0 o0, In (a0, o0) (combine cs (fst (steps w1 cs))) -> is_connect a0 -> ~ bad_outcome o0).
      { intros a0 o0 I0. apply H. destruct (steps w1 cs) as [os w2]. cbn [fst combine In] in *. right. exact I0. }
      destruct (IH w1 T1 S1 Ncs H1) as (G2 & F2). destruct (steps w1 cs) as [os w2]. cbn [snd] in *.
      split; [eapply gx_trans; eauto|exact F2].
    + assert (H1 : forall a0 o0, In (a0, o0) (combine cs (fst (steps w1 cs))) -> is_connect a0 -> ~ bad_outcome o0).
      { intros a0 o0 I0. apply H. destruct (steps w1 cs) as [os w2]. cbn [fst combine In] in *. right. exact I0. }
      destruct (IH w1 T1 S1 Ncs H1) as (G2 & F2). destruct (steps w1 cs) as [os w2]. cbn [snd] in *.
      split; [eapply gx_trans; eauto|exact F2].
    + cbn [snd]. split; [exact G|exact S1].
Qed.

(* a fresh client is in such a state *)
Lemma init_safe cfg script : safe (init_world cfg script).
Proof. left. reflexivity. Qed.

(* ------------------------------------------------------------------ the proviso is needed: the finding *)
(* AUTH TLS refused with 530; connect() returns the two replies; the application calls login(): USER and PASS travel in
   clear text - on a client that has a TLS context *)
Definition refused_script : list session :=
  let say c := mkR [RReply (mkReply c [])] [] false false true no_plan in
  [mkSess true false true (say 220) [say 530; say 331; say 230; say 200; say 200; say 200]].

Theorem clear_text_after_refused_auth_refuted :
  let w0 := init_world (mkConfig Passive true TBinary true false) refused_script in
  let '(os, w) := steps w0 [AConnect [104] 21 None; ALogin [117] [112]] in
  os = [OReturn (RvReplies [mkReply 220 []; mkReply 530 []]);
        OReturn (RvReplies [mkReply 331 []; mkReply 230 []; mkReply 200 []; mkReply 200 []; mkReply 200 []])] /\
  In (EWire false 2 (USER_ ++ [SP; 117])) (w_trace w) /\ In (EWire false 3 (PASS_ ++ [SP; 112])) (w_trace w).
Proof. vm_compute. split; [reflexivity|]. split; auto 20. Qed.

(* ... and the history theorem is not vacuous: the same server accepting AUTH TLS *)
Definition accepted_script : list session :=
  let say c := mkR [RReply (mkReply c [])] [] false false true no_plan in
  [mkSess true false true (say 220) [say 234; say 331; say 230; say 200; say 200; say 200; say 200]].

Example history_clear_text_example :
  let w0 := init_world (mkConfig Passive true TBinary true false) accepted_script in
  let cs := [AConnect [104] 21 None; ALogin [117] [112]; ASimple [78;79;79;80] None] in
  (forall a o, In (a, o) (combine cs (fst (steps w0 cs))) -> is_connect a -> ~ bad_outcome o) /\
  filter (fun e => match e with EWire false _ _ => true | _ => false end) (w_trace (snd (steps w0 cs))) = [EWire false 1 AUTH_TLS].
Proof.
  split; [|vm_compute; reflexivity].
  vm_compute. intros a o [H|[H|[H|[]]]]; inversion H; subst; intros C; try destruct C. intro B. discriminate B.
Qed.
