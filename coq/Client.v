(* Client.v - ftp::client (src/client.cpp) as a sequential state machine over a scripted peer.
   Operations are programs of a small free monad ([prog]); [run] interprets them over a [world] that
   holds the client's state, the peer's script and an append-only trace of everything a property
   talks about.  The code modelled is the code after the "fix:" commits recorded in known_findings.txt. *)
From LibFtp Require Export Bytes Decimal Reply Endpoint DataConn.
Local Open Scope N_scope.

(* ------------------------------------------------------------------ configuration *)
Inductive tmode := Passive | Active.
Record config := mkConfig { c_mode : tmode; c_rfc2428 : bool; c_type : ttype; c_tls : bool; c_resume : bool }.

(* ------------------------------------------------------------------ the peer's script *)
Inductive ritem := RReply (r : reply) | RGarbage.

Record dplan := mkDP {
  dp_reachable : bool;       (* passive: someone listens at the announced port; active: the peer connects *)
  dp_tls_ok : bool;          (* the peer completes the TLS handshake on the data connection *)
  dp_segs : list bytes;      (* download / listing: what the successive read_some calls return *)
  dp_end : dend;             (* ... and how that stream ends (clean end of file / reset or TLS truncation) *)
  dp_shutdown_ok : bool }.   (* the TLS shutdown of the data connection succeeds (or ends in plain eof) *)

Record reaction := mkR {
  r_now : list ritem;        (* written at once when the command line arrives *)
  r_on_close : list ritem;   (* written when the client closes the data connection *)
  r_drop_pending : bool;     (* ABOR of a transfer in progress: the pending completion reply is superseded *)
  r_close_after : bool;      (* the peer closes the control connection after writing r_now *)
  r_tls_ok : bool;           (* AUTH TLS: the peer completes the control handshake *)
  r_data : dplan }.

Record session := mkSess {
  s_reachable : bool;        (* the TCP connect succeeds *)
  s_ip6 : bool;              (* address family of the control connection *)
  s_tls_close_clean : bool;  (* the peer answers a TLS close-notify on the control connection *)
  s_greeting : reaction;
  s_reactions : list reaction }.

(* ------------------------------------------------------------------ trace *)
Inductive obs_ev := OConnected (h : bytes) (p : N) | ORequest (l : bytes) | OReply (r : reply) | OFileList (t : bytes).
Inductive ctl_ev :=
| CConnect (h : bytes) (p : N) (ok : bool) | CSetSsl (on : bool) | CHandshake (ok : bool) (sess : nat)
| CTlsShutdown (ok : bool) | CTcpShutdown | CClose.
Inductive data_ev :=
| DNewObj | DListen | DConnectTo (ip : option bytes) (port : N) (ok : bool) | DAcceptOk
| DHandshake (offered : option nat) (ok : bool) | DTlsShutdown (ok : bool) | DTcpShutdown | DClose | DAccClose.
Inductive event :=
| EWire (secured : bool) (ord : nat) (line : bytes)     (* a command line (CR LF appended) written to the peer *)
| EWireLost (line : bytes)                              (* written after the peer had closed: nobody reads it *)
| ERecv (tag : nat) (r : reply)                         (* a reply taken from the control connection *)
| EObs (o : nat) (e : obs_ev)
| EIo (e : io_event)
| ECtl (e : ctl_ev)
| EData (e : data_ev)
| ESetType (t : ttype).

(* ------------------------------------------------------------------ world *)
Record dstate := mkD { d_sock : bool; d_acc : bool; d_ssl : bool }.
Record io_args := mkIo { io_cb : callback; io_sink : sink; io_chunks : list bytes }.

Record world := mkW {
  w_cfg : config;
  w_open : bool;               (* control socket open: is_connected() *)
  w_ssl : bool;                (* the control socket object is an ssl_socket *)
  w_tls_up : bool;             (* its handshake has completed *)
  w_sess_id : nat;             (* TLS session established by that handshake *)
  w_tls_clean : bool;          (* the peer answers close-notify on this control connection *)
  w_peer_closed : bool;
  w_backlog : list (nat * ritem);
  w_pending : list (nat * ritem);
  w_script : list session;
  w_cur : list reaction;
  w_cur6 : bool;
  w_last_tls_ok : bool;
  w_plan : dplan;
  w_obs : list nat;
  w_data : option dstate;
  w_io : io_args;
  w_ord : nat;
  w_next_sess : nat;
  w_trace : list event }.

Definition no_plan : dplan := mkDP false false [] DErr false.
Definition no_io : io_args := mkIo None (mkSink None O) [].

Definition init_world (cfg : config) (script : list session) : world :=
  mkW cfg false false false O true false [] [] script [] false false no_plan [] None no_io O 1%nat [].

(* record update helpers (one per field that changes) *)
Definition set_trace (w : world) (t : list event) : world :=
  mkW (w_cfg w) (w_open w) (w_ssl w) (w_tls_up w) (w_sess_id w) (w_tls_clean w) (w_peer_closed w) (w_backlog w)
      (w_pending w) (w_script w) (w_cur w) (w_cur6 w) (w_last_tls_ok w) (w_plan w) (w_obs w) (w_data w) (w_io w)
      (w_ord w) (w_next_sess w) t.
Definition emit (w : world) (es : list event) : world := set_trace w (w_trace w ++ es).
Definition set_cfg (w : world) (c : config) : world :=
  mkW c (w_open w) (w_ssl w) (w_tls_up w) (w_sess_id w) (w_tls_clean w) (w_peer_closed w) (w_backlog w)
      (w_pending w) (w_script w) (w_cur w) (w_cur6 w) (w_last_tls_ok w) (w_plan w) (w_obs w) (w_data w) (w_io w)
      (w_ord w) (w_next_sess w) (w_trace w).
Definition set_obs (w : world) (o : list nat) : world :=
  mkW (w_cfg w) (w_open w) (w_ssl w) (w_tls_up w) (w_sess_id w) (w_tls_clean w) (w_peer_closed w) (w_backlog w)
      (w_pending w) (w_script w) (w_cur w) (w_cur6 w) (w_last_tls_ok w) (w_plan w) o (w_data w) (w_io w)
      (w_ord w) (w_next_sess w) (w_trace w).
Definition set_data (w : world) (d : option dstate) : world :=
  mkW (w_cfg w) (w_open w) (w_ssl w) (w_tls_up w) (w_sess_id w) (w_tls_clean w) (w_peer_closed w) (w_backlog w)
      (w_pending w) (w_script w) (w_cur w) (w_cur6 w) (w_last_tls_ok w) (w_plan w) (w_obs w) d (w_io w)
      (w_ord w) (w_next_sess w) (w_trace w).
Definition set_io (w : world) (i : io_args) : world :=
  mkW (w_cfg w) (w_open w) (w_ssl w) (w_tls_up w) (w_sess_id w) (w_tls_clean w) (w_peer_closed w) (w_backlog w)
      (w_pending w) (w_script w) (w_cur w) (w_cur6 w) (w_last_tls_ok w) (w_plan w) (w_obs w) (w_data w) i
      (w_ord w) (w_next_sess w) (w_trace w).
Definition set_queues (w : world) (b p : list (nat * ritem)) : world :=
  mkW (w_cfg w) (w_open w) (w_ssl w) (w_tls_up w) (w_sess_id w) (w_tls_clean w) (w_peer_closed w) b
      p (w_script w) (w_cur w) (w_cur6 w) (w_last_tls_ok w) (w_plan w) (w_obs w) (w_data w) (w_io w)
      (w_ord w) (w_next_sess w) (w_trace w).
(* the state of the control socket object *)
Definition set_ctl (w : world) (open ssl up : bool) (sess : nat) : world :=
  mkW (w_cfg w) open ssl up sess (w_tls_clean w) (w_peer_closed w) (w_backlog w)
      (w_pending w) (w_script w) (w_cur w) (w_cur6 w) (w_last_tls_ok w) (w_plan w) (w_obs w) (w_data w) (w_io w)
      (w_ord w) (w_next_sess w) (w_trace w).

Definition tag (n : nat) (l : list ritem) : list (nat * ritem) := map (fun x => (n, x)) l.

(* the peer receives a command line: its next reaction takes effect *)
Definition peer_react (w : world) : world :=
  match w_cur w with
  | [] => (* nothing scripted: the peer stays silent *)
      mkW (w_cfg w) (w_open w) (w_ssl w) (w_tls_up w) (w_sess_id w) (w_tls_clean w) (w_peer_closed w) (w_backlog w)
          (w_pending w) (w_script w) [] (w_cur6 w) false no_plan (w_obs w) (w_data w) (w_io w)
          (S (w_ord w)) (w_next_sess w) (w_trace w)
  | r :: rest =>
      mkW (w_cfg w) (w_open w) (w_ssl w) (w_tls_up w) (w_sess_id w) (w_tls_clean w)
          (w_peer_closed w || r_close_after r)
          (w_backlog w ++ tag (w_ord w) (r_now r))
          ((if r_drop_pending r then [] else w_pending w) ++ tag (w_ord w) (r_on_close r))
          (w_script w) rest (w_cur6 w) (r_tls_ok r) (r_data r) (w_obs w) (w_data w) (w_io w)
          (S (w_ord w)) (w_next_sess w) (w_trace w)
  end.

(* the client closes its data socket: the peer sees it and writes what it had held back *)
Definition release_pending (w : world) : world := set_queues w (w_backlog w ++ w_pending w) [].

Definition notify (w : world) (e : obs_ev) : world := emit w (map (fun o => EObs o e) (w_obs w)).

Definition has_crlf (a : bytes) : bool := mem CR a || mem LF a.

(* ------------------------------------------------------------------ programs *)
Inductive retv :=
| RvReplies (l : list reply) | RvReply (r : reply) | RvOptReply (o : option reply)
| RvList (l : list reply) (text : bytes) | RvUnit.

Inductive adv := AdvEprt | AdvPort.

Inductive prog :=
| Ret (v : retv)
| Throw
| CheckArg (a : bytes) (k : prog)                      (* reject CR / LF in a caller text *)
| Send (verb : bytes) (arg : option bytes) (k : prog)  (* make_command + client::send *)
| SendRaw (line : bytes) (k : prog)                    (* fixed text: AUTH TLS, PBSZ 0, PROT P *)
| SendAdv (a : adv) (k : prog)                         (* EPRT / PORT for the listening endpoint *)
| Recv (k : reply -> prog)                             (* client::recv *)
| Notify (e : obs_ev) (k : prog)
| GetCfg (k : config -> prog)
| SetTypeCfg (t : ttype) (k : prog)
| IsOpen (k : bool -> prog)
| IsSsl (k : bool -> prog)
| CtlConnect (h : bytes) (p : N) (k : prog)
| CtlSetSsl (on : bool) (k : prog)
| CtlHandshake (k : prog)
| CtlTlsShutdown (k : prog)
| CtlDisconnect (k : prog)
| DNew (k : prog)
| DConnect (ip : option bytes) (port : N) (k : prog)
| DListenP (k : prog)
| DAccept (k : prog)
| DHandshakeP (k : prog)
| DDisconnect (graceful : bool) (k : prog)
| PumpIn (k : pump_result -> prog)
| PumpInList (k : bytes -> prog)
| PumpOut (k : pump_result -> prog)
| Poll (k : bool -> prog)
| Scope (body : prog).                                  (* lifetime of the data_connection_ptr *)

Inductive outcome := OReturn (v : retv) | OThrow | OBlocked.

(* control_connection::disconnect (always closes; reports the first error afterwards) *)
Definition ctl_disconnect (w : world) : bool * world :=
  let shut_ok := negb (w_ssl w) || (w_tls_up w && w_tls_clean w) in
  let ev := (if w_ssl w then [ECtl (CTlsShutdown shut_ok)] else []) ++ [ECtl CTcpShutdown; ECtl CClose] ++
            (if w_ssl w then [ECtl (CSetSsl false)] else []) in
  let w1 := emit w ev in
  let w2 := set_queues (set_ctl w1 false false false O) [] [] in
  (shut_ok, w2).

Definition canon_port : N := 50000.
Definition block_size : nat := N.to_nat 8192.   (* std::array<char, 8192> in data_connection::send *)
Definition local_ip (w : world) : ipaddr := if w_cur6 w then V6 [58; 58; 49] else V4 127 0 0 1.

Definition do_send (w : world) (line : bytes) : option world :=
  let w1 := notify w (ORequest line) in
  if negb (w_open w1) then None
  else if w_ssl w1 && negb (w_tls_up w1) then None
  else if w_peer_closed w1 then Some (emit w1 [EWireLost line])
  else Some (peer_react (emit w1 [EWire (w_ssl w1 && w_tls_up w1) (w_ord w1) line])).

Definition close_data (w : world) : world :=
  match w_data w with
  | None => w
  | Some d =>
      let w1 := if d_sock d then release_pending (emit w [EData DClose]) else w in
      let w2 := if d_acc d then emit w1 [EData DAccClose] else w1 in
      set_data w2 (Some (mkD false false (d_ssl d)))
  end.

Fixpoint run (p : prog) (w : world) : outcome * world :=
  match p with
  | Ret v => (OReturn v, w)
  | Throw => (OThrow, w)
  | CheckArg a k => if has_crlf a then (OThrow, w) else run k w
  | Send verb arg k =>
      match arg with
      | Some a => if has_crlf a then (OThrow, w) else
                  match do_send w (verb ++ SP :: a) with Some w' => run k w' | None => (OThrow, notify w (ORequest (verb ++ SP :: a))) end
      | None => match do_send w verb with Some w' => run k w' | None => (OThrow, notify w (ORequest verb)) end
      end
  | SendRaw line k =>
      match do_send w line with Some w' => run k w' | None => (OThrow, notify w (ORequest line)) end
  | SendAdv a k =>
      let cmd := match a with
                 | AdvEprt => Some (make_eprt_command (local_ip w) canon_port)
                 | AdvPort => make_port_command (local_ip w) canon_port
                 end in
      match cmd with
      | None => (OThrow, w)
      | Some line => match do_send w line with Some w' => run k w' | None => (OThrow, notify w (ORequest line)) end
      end
  | Recv k =>
      if negb (w_open w) then (OThrow, w) else
      match w_backlog w with
      | [] => if w_peer_closed w then (OThrow, w) else (OBlocked, w)
      | (_, RGarbage) :: rest => (OThrow, set_queues w rest (w_pending w))
      | (t, RReply r) :: rest =>
          let w1 := emit (set_queues w rest (w_pending w)) [ERecv t r] in
          if code r =? 421 then
            let '(ok, w2) := ctl_disconnect w1 in
            if ok then run (k r) (notify w2 (OReply r)) else (OThrow, w2)
          else run (k r) (notify w1 (OReply r))
      end
  | Notify e k => run k (notify w e)
  | GetCfg k => run (k (w_cfg w)) w
  | SetTypeCfg t k =>
      let c := w_cfg w in
      run k (emit (set_cfg w (mkConfig (c_mode c) (c_rfc2428 c) t (c_tls c) (c_resume c))) [ESetType t])
  | IsOpen k => run (k (w_open w)) w
  | IsSsl k => run (k (w_ssl w)) w
  | CtlConnect h p k =>
      (* a new connection starts from an empty buffer and a plain socket *)
      let w0 := set_queues (set_ctl (if w_open w then emit w [ECtl CClose] else w) false false false O) [] [] in
      match w_script w0 with
      | [] => (OThrow, emit w0 [ECtl (CConnect h p false)])
      | s :: rest =>
          if negb (s_reachable s) then
            (OThrow, emit (mkW (w_cfg w0) false false false O true false [] [] rest [] false false no_plan
                               (w_obs w0) (w_data w0) (w_io w0) (w_ord w0) (w_next_sess w0) (w_trace w0))
                          [ECtl (CConnect h p false)])
          else
            let g := s_greeting s in
            let w1 := mkW (w_cfg w0) true false false O (s_tls_close_clean s) (r_close_after g)
                          (tag (w_ord w0) (r_now g)) [] rest (s_reactions s) (s_ip6 s) false no_plan
                          (w_obs w0) (w_data w0) (w_io w0) (S (w_ord w0)) (w_next_sess w0) (w_trace w0) in
            run k (emit w1 [ECtl (CConnect h p true)])
      end
  | CtlSetSsl on k => run k (emit (set_ctl w (w_open w) on false O) [ECtl (CSetSsl on)])
  | CtlHandshake k =>
      if w_last_tls_ok w && negb (w_peer_closed w) then
        let id := w_next_sess w in
        let w1 := set_ctl w (w_open w) (w_ssl w) true id in
        let w2 := mkW (w_cfg w1) (w_open w1) (w_ssl w1) (w_tls_up w1) (w_sess_id w1) (w_tls_clean w1) (w_peer_closed w1)
                      (w_backlog w1) (w_pending w1) (w_script w1) (w_cur w1) (w_cur6 w1) (w_last_tls_ok w1) (w_plan w1)
                      (w_obs w1) (w_data w1) (w_io w1) (w_ord w1) (S id) (w_trace w1) in
        run k (emit w2 [ECtl (CHandshake true id)])
      else (OThrow, emit w [ECtl (CHandshake false O)])
  | CtlTlsShutdown k =>
      let ok := w_tls_up w && w_tls_clean w && negb (w_peer_closed w) in
      if ok then run k (emit w [ECtl (CTlsShutdown true)]) else (OThrow, emit w [ECtl (CTlsShutdown false)])
  | CtlDisconnect k =>
      let '(ok, w1) := ctl_disconnect w in
      if ok then run k w1 else (OThrow, w1)
  | DNew k => run k (emit (set_data w (Some (mkD false false false))) [EData DNewObj])
  | DConnect ip port k =>
      if dp_reachable (w_plan w) then
        run k (emit (set_data w (Some (mkD true false false))) [EData (DConnectTo ip port true)])
      else (OThrow, emit w [EData (DConnectTo ip port false)])
  | DListenP k => run k (emit (set_data w (Some (mkD false true false))) [EData DListen])
  | DAccept k =>
      if dp_reachable (w_plan w) then
        run k (emit (set_data w (Some (mkD true true false))) [EData DAcceptOk])
      else (OBlocked, w)
  | DHandshakeP k =>
      let offered := if c_resume (w_cfg w) then Some (w_sess_id w) else None in
      let d := match w_data w with Some d => mkD (d_sock d) (d_acc d) true | None => mkD false false true end in
      if dp_tls_ok (w_plan w) then run k (emit (set_data w (Some d)) [EData (DHandshake offered true)])
      else (OThrow, emit (set_data w (Some d)) [EData (DHandshake offered false)])
  | DDisconnect graceful k =>
      match w_data w with
      | None => run k w
      | Some d =>
          if d_ssl d && negb (dp_shutdown_ok (w_plan w)) then (OThrow, emit w [EData (DTlsShutdown false)])
          else
            let w1 := emit w ((if d_ssl d then [EData (DTlsShutdown true)] else []) ++
                              (if graceful then [EData DTcpShutdown] else [])) in
            run k (close_data w1)
      end
  | PumpIn k =>
      let '(ev, r, cb') := data_recv (c_type (w_cfg w)) (io_sink (w_io w)) (dp_segs (w_plan w)) (dp_end (w_plan w))
                                     (io_cb (w_io w)) in
      let w1 := set_io (emit w (map EIo ev)) (mkIo cb' (io_sink (w_io w)) (io_chunks (w_io w))) in
      match r with PThrow => (OThrow, w1) | _ => run (k r) w1 end
  | PumpInList k =>
      let '(ev, r, _) := data_recv (c_type (w_cfg w)) (mkSink None O) (dp_segs (w_plan w)) (dp_end (w_plan w)) None in
      let w1 := emit w (map EIo ev) in
      match r with PThrow => (OThrow, w1) | _ => run (k (sink_bytes ev)) w1 end
  | PumpOut k =>
      let '(ev, r, cb') := data_send (c_type (w_cfg w)) block_size (io_chunks (w_io w)) (io_cb (w_io w)) in
      let w1 := set_io (emit w (map EIo ev)) (mkIo cb' (io_sink (w_io w)) (io_chunks (w_io w))) in
      match r with PThrow => (OThrow, w1) | _ => run (k r) w1 end
  | Poll k =>
      match io_cb (w_io w) with
      | None => run (k false) w
      | Some answers =>
          let '(a, answers') := poll answers in
          run (k a) (set_io (emit w [EIo (IoPoll a)]) (mkIo (Some answers') (io_sink (w_io w)) (io_chunks (w_io w))))
      end
  | Scope body =>
      let '(o, w1) := run body w in
      (o, set_data (close_data w1) None)
  end.

(* ------------------------------------------------------------------ the operations of ftp::client *)
Definition str (l : list N) : bytes := l.
Definition USER_ := str [85;83;69;82].  Definition PASS_ := str [80;65;83;83].
Definition TYPE_ := str [84;89;80;69].  Definition REIN_ := str [82;69;73;78].
Definition QUIT_ := str [81;85;73;84].  Definition ABOR_ := str [65;66;79;82].
Definition EPSV_ := str [69;80;83;86].  Definition PASV_ := str [80;65;83;86].
Definition RNFR_ := str [82;78;70;82].  Definition RNTO_ := str [82;78;84;79].
Definition RETR_ := str [82;69;84;82].  Definition STOR_ := str [83;84;79;82].
Definition STOU_ := str [83;84;79;85].  Definition APPE_ := str [65;80;80;69].
Definition LIST_ := str [76;73;83;84].  Definition NLST_ := str [78;76;83;84].
Definition AUTH_TLS := str [65;85;84;72;32;84;76;83].
Definition PBSZ_0 := str [80;66;83;90;32;48].
Definition PROT_P := str [80;82;79;84;32;80].

Definition type_arg (t : ttype) : bytes := match t with TBinary => [73] | TAscii => [65] end.

Definition process_command (verb : bytes) (arg : option bytes) (k : reply -> prog) : prog :=
  Send verb arg (Recv k).
Definition process_raw (line : bytes) (k : reply -> prog) : prog := SendRaw line (Recv k).

Definition process_login (user pass : bytes) (acc : list reply) (k : list reply -> prog) : prog :=
  CheckArg pass (GetCfg (fun cfg =>
  process_command USER_ (Some user) (fun r1 =>
    let after_pass (r : reply) (acc2 : list reply) : prog :=
      if is_negative r then k acc2 else
      let type_step (acc3 : list reply) : prog :=
        process_command TYPE_ (Some (type_arg (c_type cfg))) (fun r5 => k (acc3 ++ [r5])) in
      if c_tls cfg then
        process_raw PBSZ_0 (fun r3 => if is_negative r3 then k (acc2 ++ [r3]) else
        process_raw PROT_P (fun r4 => if is_negative r4 then k (acc2 ++ [r3; r4]) else type_step (acc2 ++ [r3; r4])))
      else type_step acc2 in
    if code r1 =? 331 then process_command PASS_ (Some pass) (fun r2 => after_pass r2 (acc ++ [r1; r2]))
    else after_pass r1 (acc ++ [r1])))).

Definition op_connect (h : bytes) (p : N) (login : option (bytes * bytes)) : prog :=
  let login_part (acc : list reply) : prog :=
    match login with
    | None => Ret (RvReplies acc)
    | Some (u, pw) => process_login u pw acc (fun acc' => Ret (RvReplies acc'))
    end in
  let cont (acc : list reply) (last : reply) : prog :=
    if is_negative last then Ret (RvReplies acc) else
    GetCfg (fun cfg =>
      if c_tls cfg then
        process_raw AUTH_TLS (fun a =>
          if is_negative a then Ret (RvReplies (acc ++ [a]))
          else CtlSetSsl true (CtlHandshake (login_part (acc ++ [a]))))
      else login_part acc) in
  let body := CtlConnect h p (Notify (OConnected h p) (Recv (fun g =>
                if code g =? 120 then Recv (fun g2 => cont [g; g2] g2) else cont [g] g))) in
  match login with
  | Some (u, pw) => CheckArg u (CheckArg pw body)
  | None => body
  end.

Definition op_login (u pw : bytes) : prog := process_login u pw [] (fun acc => Ret (RvReplies acc)).

Definition op_logout : prog :=
  process_command REIN_ None (fun r =>
    let fin (r' : reply) : prog :=
      IsSsl (fun s => if is_positive r' && s then CtlTlsShutdown (CtlSetSsl false (Ret (RvReply r')))
                      else Ret (RvReply r')) in
    if code r =? 120 then Recv fin else fin r).

Definition op_simple (verb : bytes) (arg : option bytes) : prog :=
  process_command verb arg (fun r => Ret (RvReply r)).

Definition op_set_type (t : ttype) : prog :=
  process_command TYPE_ (Some (type_arg t)) (fun r =>
    if is_positive r then SetTypeCfg t (Ret (RvReply r)) else Ret (RvReply r)).

Definition op_rename (a b : bytes) : prog :=
  CheckArg b (process_command RNFR_ (Some a) (fun r =>
    if code r =? 350 then process_command RNTO_ (Some b) (fun r2 => Ret (RvReplies [r; r2]))
    else Ret (RvReplies [r]))).

Definition op_disconnect (graceful : bool) : prog :=
  let rest (o : option reply) : prog :=
    IsOpen (fun b =>
      let after := IsSsl (fun s => if s then CtlSetSsl false (Ret (RvOptReply o)) else Ret (RvOptReply o)) in
      if b then CtlDisconnect after else after) in
  if graceful then process_command QUIT_ None (fun r => rest (Some r)) else rest None.

(* create_data_connection: [k_ok] with the connection ready, [k_none] when a step was refused *)
Definition create_data_connection (verb : bytes) (arg : option bytes) (acc : list reply)
                                  (k_ok k_none : list reply -> prog) : prog :=
  GetCfg (fun cfg =>
    let main (acc1 : list reply) (passive : bool) : prog :=
      process_command verb arg (fun r2 =>
        let acc2 := acc1 ++ [r2] in
        if is_negative r2 then (if passive then DDisconnect true (k_none acc2) else k_none acc2)
        else
          let ready := if c_tls cfg then DHandshakeP (k_ok acc2) else k_ok acc2 in
          if passive then ready else DAccept ready) in
    match c_mode cfg, c_rfc2428 cfg with
    | Passive, true =>
        process_command EPSV_ None (fun r =>
          let acc1 := acc ++ [r] in
          if is_negative r then k_none acc1 else
          match try_parse_epsv_reply (text r) with
          | None => Throw
          | Some port => DNew (DConnect None port (main acc1 true))
          end)
    | Passive, false =>
        process_command PASV_ None (fun r =>
          let acc1 := acc ++ [r] in
          if is_negative r then k_none acc1 else
          match try_parse_pasv_reply (text r) with
          | None => Throw
          | Some (ip, port) => DNew (DConnect (Some ip) port (main acc1 true))
          end)
    | Active, rfc =>
        (* control_connection_.get_local_endpoint() throws when the control socket is closed *)
        IsOpen (fun b => if negb b then Throw else
        DNew (DListenP (SendAdv (if rfc then AdvEprt else AdvPort) (Recv (fun r =>
          let acc1 := acc ++ [r] in
          if is_negative r then k_none acc1 else main acc1 false)))))
    end).

Definition process_abort (acc : list reply) (k : list reply -> prog) : prog :=
  process_command ABOR_ None (fun r =>
    if code r =? 426 then Recv (fun r2 => k (acc ++ [r; r2])) else k (acc ++ [r])).

Definition finish_transfer (acc : list reply) : prog :=
  Poll (fun cancelled =>
    if cancelled then process_abort acc (fun acc' => DDisconnect false (Ret (RvReplies acc')))
    else DDisconnect true (Recv (fun r => Ret (RvReplies (acc ++ [r]))))).

(* the command line is built (and its argument checked) before anything is sent *)
Definition op_download (path : bytes) : prog :=
  CheckArg path (Scope (create_data_connection RETR_ (Some path) []
           (fun acc => PumpIn (fun _ => finish_transfer acc))
           (fun acc => Ret (RvReplies acc)))).

Definition op_upload (verb : bytes) (path : bytes) : prog :=
  CheckArg path (Scope (create_data_connection verb (Some path) []
           (fun acc => PumpOut (fun _ => finish_transfer acc))
           (fun acc => Ret (RvReplies acc)))).

Definition op_list (path : option bytes) (names : bool) : prog :=
  CheckArg (match path with Some p => p | None => [] end)
  (Scope (create_data_connection (if names then NLST_ else LIST_) path []
           (fun acc => PumpInList (fun txt => Notify (OFileList txt)
                         (DDisconnect true (Recv (fun r => Ret (RvList (acc ++ [r]) txt))))))
           (fun acc => Ret (RvList acc [])))).

(* ------------------------------------------------------------------ the API *)
Inductive upverb := UStor | UStou | UAppe.
Definition upverb_bytes (u : upverb) : bytes := match u with UStor => STOR_ | UStou => STOU_ | UAppe => APPE_ end.

Inductive api :=
| AConnect (h : bytes) (p : N) (login : option (bytes * bytes))
| ALogin (u pw : bytes)
| ALogout
| ASimple (verb : bytes) (arg : option bytes)     (* CWD CDUP PWD DELE MKD RMD SIZE MDTM STAT SYST HELP SITE NOOP *)
| ASetType (t : ttype)
| ARename (a b : bytes)
| ADownload (path : bytes) (cb : callback) (fail_at : option nat)
| AUpload (u : upverb) (path : bytes) (chunks : list bytes) (cb : callback)
| AList (path : option bytes) (names : bool)
| ADisconnect (graceful : bool)
| AAddObserver (o : nat)
| ARemoveObserver (o : nat)
| ASetMode (m : tmode)
| ASetRfc2428 (b : bool).

Definition prog_of (a : api) : prog :=
  match a with
  | AConnect h p l => op_connect h p l
  | ALogin u pw => op_login u pw
  | ALogout => op_logout
  | ASimple v arg => op_simple v arg
  | ASetType t => op_set_type t
  | ARename a b => op_rename a b
  | ADownload path _ _ => op_download path
  | AUpload u path _ _ => op_upload (upverb_bytes u) path
  | AList path names => op_list path names
  | ADisconnect g => op_disconnect g
  | _ => Ret RvUnit
  end.

Definition io_of (a : api) : io_args :=
  match a with
  | ADownload _ cb f => mkIo cb (mkSink f O) []
  | AUpload _ _ chunks cb => mkIo cb (mkSink None O) chunks
  | _ => no_io
  end.

Definition remove_all (o : nat) (l : list nat) : list nat := filter (fun x => negb (Nat.eqb x o)) l.

Definition step (w : world) (a : api) : outcome * world :=
  match a with
  | AAddObserver o => (OReturn RvUnit, set_obs w (w_obs w ++ [o]))
  | ARemoveObserver o => (OReturn RvUnit, set_obs w (remove_all o (w_obs w)))
  | ASetMode m =>
      let c := w_cfg w in
      (OReturn RvUnit, set_cfg w (mkConfig m (c_rfc2428 c) (c_type c) (c_tls c) (c_resume c)))
  | ASetRfc2428 b =>
      let c := w_cfg w in
      (OReturn RvUnit, set_cfg w (mkConfig (c_mode c) b (c_type c) (c_tls c) (c_resume c)))
  | _ => run (prog_of a) (set_io w (io_of a))
  end.

(* a history of calls; an operation that blocks ends the history (the caller never regains control) *)
Fixpoint steps (w : world) (l : list api) : list outcome * world :=
  match l with
  | [] => ([], w)
  | a :: l' =>
      let '(o, w1) := step w a in
      match o with
      | OBlocked => ([o], w1)
      | _ => let '(os, w2) := steps w1 l' in (o :: os, w2)
      end
  end.

(* sockets held by the client object *)
Definition held (w : world) : nat :=
  ((if w_open w then 1 else 0) +
   match w_data w with Some d => (if d_sock d then 1 else 0) + (if d_acc d then 1 else 0) | None => 0 end)%nat.
