(* Modes_Proofs.v - no call other than set_transfer_mode / set_rfc2428_support changes the transfer mode or the RFC 2428
   flag (the same induction over programs as run_keeps in Client_Proofs.v, for the other two configuration fields). *)
From LibFtp Require Import Bytes Decimal Reply Endpoint DataConn Client Client_Proofs.
Local Open Scope N_scope.

Definition keepm (w w' : world) : Prop :=
  c_mode (w_cfg w') = c_mode (w_cfg w) /\ c_rfc2428 (w_cfg w') = c_rfc2428 (w_cfg w).

Lemma keepm_refl w : keepm w w.
Proof. split; reflexivity. Qed.
Lemma keepm_trans a b c : keepm a b -> keepm b c -> keepm a c.
Proof. intros (A1 & A2) (B1 & B2). split; congruence. Qed.
Lemma keepm_same a b : w_cfg b = w_cfg a -> keepm a b.
Proof. intro H. unfold keepm. rewrite H. auto. Qed.

Lemma keepm_do_send w line w' : do_send w line = Some w' -> keepm w w'.
Proof.
  unfold do_send. destruct (negb _); [discriminate|]. destruct (_ && _); [discriminate|].
  destruct (w_peer_closed _); intro H; inversion H; subst; apply keepm_same; [reflexivity|].
  unfold peer_react. destruct (w_cur _); reflexivity.
Qed.

Lemma keepm_close_data w : keepm w (close_data w).
Proof.
  apply keepm_same. unfold close_data. destruct (w_data w) as [d|]; [|reflexivity].
  destruct (d_sock d), (d_acc d); reflexivity.
Qed.

Ltac msame := apply keepm_same; reflexivity.

Lemma run_keepm : forall p w, keepm w (snd (run p w)).
Proof.
  induction p as [v| |a k IH|verb arg k IH|line k IH|a k IH|k IH|e k IH|k IH|t k IH|k IH|k IH|h pt k IH|on k IH|k IH|k IH|k IH
                 |k IH|ip port k IH|k IH|k IH|k IH|g k IH|k IH|k IH|k IH|k IH|body IH]; intro w; cbn [run].
  - apply keepm_refl.
  - apply keepm_refl.
  - destruct (has_crlf a); [apply keepm_refl|apply IH].
  - destruct arg as [a|].
    + destruct (has_crlf a); [apply keepm_refl|].
      destruct (do_send w _) as [w'|] eqn:E; cbn [snd]; [eapply keepm_trans; [eapply keepm_do_send; eauto|apply IH]|msame].
    + destruct (do_send w _) as [w'|] eqn:E; cbn [snd]; [eapply keepm_trans; [eapply keepm_do_send; eauto|apply IH]|msame].
  - destruct (do_send w _) as [w'|] eqn:E; cbn [snd]; [eapply keepm_trans; [eapply keepm_do_send; eauto|apply IH]|msame].
  - destruct (match a with AdvEprt => _ | AdvPort => _ end) as [line|]; [|apply keepm_refl].
    destruct (do_send w _) as [w'|] eqn:E; cbn [snd]; [eapply keepm_trans; [eapply keepm_do_send; eauto|apply IH]|msame].
  - destruct (negb (w_open w)); [apply keepm_refl|].
    destruct (w_backlog w) as [|[t [r|]] rest]; [destruct (w_peer_closed w); apply keepm_refl| |cbn [snd]; msame].
    destruct (code r =? 421).
    + unfold ctl_disconnect. cbv zeta. destruct (negb _ || _); cbn [snd]; [eapply keepm_trans; [|apply IH]|]; msame.
    + eapply keepm_trans; [|apply IH]. msame.
  - eapply keepm_trans; [|apply IH]. msame.
  - apply IH.
  - eapply keepm_trans; [|apply IH]. split; reflexivity.
  - apply IH.
  - apply IH.
  - destruct (w_script _) as [|s rest]; cbn [snd]; [destruct (w_open w); msame|].
    destruct (negb (s_reachable s)); cbn [snd]; [destruct (w_open w); msame|].
    eapply keepm_trans; [|apply IH]. destruct (w_open w); msame.
  - eapply keepm_trans; [|apply IH]. msame.
  - destruct (_ && _); cbn [snd]; [eapply keepm_trans; [|apply IH]|]; msame.
  - destruct (_ && _); cbn [snd]; [eapply keepm_trans; [|apply IH]|]; msame.
  - unfold ctl_disconnect. cbv zeta. destruct (negb _ || _); cbn [snd]; [eapply keepm_trans; [|apply IH]|]; msame.
  - eapply keepm_trans; [|apply IH]. msame.
  - destruct (dp_reachable _); cbn [snd]; [eapply keepm_trans; [|apply IH]|]; msame.
  - eapply keepm_trans; [|apply IH]. msame.
  - destruct (dp_reachable _); cbn [snd]; [eapply keepm_trans; [|apply IH]; msame|apply keepm_refl].
  - destruct (dp_tls_ok _); cbn [snd]; [eapply keepm_trans; [|apply IH]|]; msame.
  - destruct (w_data w) as [d|]; [|apply IH].
    destruct (_ && _); cbn [snd]; [msame|].
    eapply keepm_trans; [|apply IH]. eapply keepm_trans; [|apply keepm_close_data]. msame.
  - destruct (data_recv _ _ _ _ _) as [[ev r] cb']. destruct r; cbn [snd]; try (eapply keepm_trans; [|apply IH]); msame.
  - destruct (data_recv _ _ _ _ _) as [[ev r] cb']. destruct r; cbn [snd]; try (eapply keepm_trans; [|apply IH]); msame.
  - destruct (data_send _ _ _ _) as [[ev r] cb']. destruct r; cbn [snd]; try (eapply keepm_trans; [|apply IH]); msame.
  - destruct (io_cb (w_io w)) as [answers|]; [|apply IH].
    destruct (poll answers) as [a answers']. eapply keepm_trans; [|apply IH]. msame.
  - destruct (run body w) as [o w1] eqn:R. cbn [snd].
    pose proof (IH w) as X. rewrite R in X. cbn [snd] in X.
    eapply keepm_trans; [exact X|]. eapply keepm_trans; [apply keepm_close_data|msame].
Qed.


Theorem step_keeps_modes a w :
  match a with ASetMode _ | ASetRfc2428 _ => True | _ => keepm w (snd (step w a)) end.
Proof.
  destruct a; unfold step; try exact I; try (eapply keepm_trans; [|apply run_keepm]; msame); split; reflexivity.
Qed.
