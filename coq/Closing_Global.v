(* Closing_Global.v - C13 over EVERY call, every state and every behaviour of the server: a 421 reply, wherever in a call
   it is read (as the answer to a command, as a greeting, after a 120, as the completion reply of a transfer, after ABOR),
   leaves the client disconnected at the end of that call; and no call other than connect() connects a client that is
   not connected. *)
From LibFtp Require Import Bytes Decimal Reply Endpoint DataConn Client Client_Proofs Tls_Global.
Local Open Scope N_scope.

Definition has421 (tr : list event) : Prop := exists t r, In (ERecv t r) tr /\ code r = 421.

Definition norecv (e : event) : Prop := match e with ERecv _ _ => False | _ => True end.

(* w' is w after some events; a client that was not connected is still not connected; and if a 421 was read among
   those events, the client is not connected at the end *)
Definition R (w w' : world) : Prop :=
  exists tr, w_trace w' = w_trace w ++ tr /\ (w_open w = false -> w_open w' = false) /\ (has421 tr -> w_open w' = false).

Lemma has421_app a b : has421 (a ++ b) -> has421 a \/ has421 b.
Proof. intros (t & r & I & C). apply in_app_or in I. destruct I; [left|right]; exists t, r; auto. Qed.

Lemma norecv_no421 es : Forall norecv es -> ~ has421 es.
Proof.
  intros F (t & r & I & _). rewrite Forall_forall in F. exact (F _ I).
Qed.

Lemma R_refl w : R w w.
Proof. exists []. rewrite app_nil_r. split; [reflexivity|]. split; [auto|]. intros (t & r & [] & _). Qed.

Lemma R_trans a b c : R a b -> R b c -> R a c.
Proof.
  intros (t1 & E1 & C1 & H1) (t2 & E2 & C2 & H2). exists (t1 ++ t2). rewrite E2, E1, app_assoc. split; [reflexivity|].
  split; [auto|]. intro H. destruct (has421_app _ _ H) as [X|X]; auto.
Qed.

Lemma R_quiet w w' es : w_trace w' = w_trace w ++ es -> Forall norecv es -> w_open w' = w_open w -> R w w'.
Proof.
  intros E F O. exists es. split; [exact E|]. split; [rewrite O; auto|]. intro H. destruct (norecv_no421 _ F H).
Qed.

Lemma R_closed w w' es : w_trace w' = w_trace w ++ es -> w_open w' = false -> R w w'.
Proof. intros E C. exists es. split; [exact E|]. split; auto. Qed.

Lemma nr_obs obs e : Forall norecv (map (fun o => EObs o e) obs).
Proof. induction obs as [|o obs IH]; cbn; constructor; [exact I|exact IH]. Qed.
Lemma nr_io ev : Forall norecv (map EIo ev).
Proof. induction ev as [|e ev IH]; cbn; constructor; [exact I|exact IH]. Qed.

Lemma R_notify w e : R w (notify w e).
Proof. apply (R_quiet _ _ (map (fun o => EObs o e) (w_obs w))); [reflexivity|apply nr_obs|reflexivity]. Qed.

Ltac nrall := repeat (first [apply Forall_nil | apply Forall_cons; [exact I|]]).
Ltac rq := first
  [ apply (R_quiet _ _ []); [cbn [w_trace emit set_trace set_queues set_io set_data set_cfg set_ctl set_obs release_pending notify];
                            rewrite ?app_nil_r; reflexivity|constructor|reflexivity]
  | (eapply R_quiet; [cbn [w_trace emit set_trace set_queues set_io set_data set_cfg set_ctl set_obs release_pending notify];
                      rewrite <- ?app_assoc; reflexivity|nrall|reflexivity]) ].

Lemma R_do_send w line w' : do_send w line = Some w' -> R w w'.
Proof.
  unfold do_send. destruct (negb _); [discriminate|]. destruct (_ && negb _); [discriminate|].
  set (w1 := notify w (ORequest line)).
  assert (G1 : R w w1) by apply R_notify.
  destruct (w_peer_closed w1); intro H; inversion H; subst; clear H.
  - eapply R_trans; [exact G1|]. rq.
  - eapply R_trans; [exact G1|].
    match goal with |- R w1 (peer_react ?W) => apply (R_trans _ W _) end.
    + rq.
    + match goal with |- R ?W (peer_react ?W) => destruct (peer_react_ctl W) as (A & _);
        apply (R_quiet _ _ []); [rewrite app_nil_r; apply peer_react_trace|constructor|exact A] end.
Qed.

Lemma R_close_data w : R w (close_data w).
Proof.
  destruct (gx_close_data w) as ((tr & E & _) & O & _).
  unfold close_data in *. destruct (w_data w) as [d|]; [|apply R_refl].
  destruct (d_sock d), (d_acc d); cbv zeta in *.
  - apply (R_quiet _ _ [EData DClose; EData DAccClose]); [cbn [w_trace set_data emit set_trace release_pending set_queues]; rewrite <- app_assoc; reflexivity|nrall|reflexivity].
  - apply (R_quiet _ _ [EData DClose]); [reflexivity|nrall|reflexivity].
  - apply (R_quiet _ _ [EData DAccClose]); [reflexivity|nrall|reflexivity].
  - apply (R_quiet _ _ []); [rewrite app_nil_r; reflexivity|constructor|reflexivity].
Qed.

Lemma R_ctl_disconnect w : R w (snd (ctl_disconnect w)) /\ w_open (snd (ctl_disconnect w)) = false.
Proof.
  unfold ctl_disconnect. cbn [snd]. split; [|reflexivity].
  eapply R_closed; [cbn [w_trace set_queues set_ctl emit set_trace]; reflexivity|reflexivity].
Qed.

(* programs that do not open a connection: [nd MClosed] *)
Lemma run_R : forall p w, nd MClosed p -> R w (snd (run p w)).
Proof.
  induction p as [v| |a k IH|verb arg k IH|line k IH|a k IH|k IH|e k IH|k IH|t k IH|k IH|k IH|h pt k IH|on k IH|k IH|k IH|k IH
                 |k IH|ip port k IH|k IH|k IH|k IH|g k IH|k IH|k IH|k IH|k IH|body IH]; intros w N; cbn [run]; cbn [nd] in N.
  - apply R_refl.
  - apply R_refl.
  - destruct (has_crlf a); [apply R_refl|apply IH; exact N].
  - destruct arg as [a|].
    + destruct (has_crlf a); [apply R_refl|].
      destruct (do_send w _) as [w'|] eqn:E; cbn [snd]; [eapply R_trans; [eapply R_do_send; eauto|apply IH; exact N]|apply R_notify].
    + destruct (do_send w _) as [w'|] eqn:E; cbn [snd]; [eapply R_trans; [eapply R_do_send; eauto|apply IH; exact N]|apply R_notify].
  - destruct (do_send w _) as [w'|] eqn:E; cbn [snd]; [eapply R_trans; [eapply R_do_send; eauto|apply IH; exact N]|apply R_notify].
  - destruct (match a with AdvEprt => _ | AdvPort => _ end) as [line|]; [|apply R_refl].
    destruct (do_send w _) as [w'|] eqn:E; cbn [snd]; [eapply R_trans; [eapply R_do_send; eauto|apply IH; exact N]|apply R_notify].
  - (* Recv *)
    destruct (negb (w_open w)); [apply R_refl|].
    destruct (w_backlog w) as [|[t [r|]] rest].
    + destruct (w_peer_closed w); apply R_refl.
    + destruct (code r =? 421) eqn:C421.
      * destruct (ctl_disconnect _) as [ok w2] eqn:D.
        destruct (R_ctl_disconnect (emit (set_queues w rest (w_pending w)) [ERecv t r])) as (_ & C).
        rewrite D in C. cbn [snd] in C.
        assert (G0 : R w w2).
        { assert (X : exists es, w_trace w2 = w_trace w ++ es).
          { pose proof (ext_ctl_disconnect (emit (set_queues w rest (w_pending w)) [ERecv t r])) as (es & X).
            rewrite D in X. cbn [snd] in X. exists ([ERecv t r] ++ es). rewrite X.
            cbn [w_trace emit set_trace set_queues]. rewrite <- app_assoc. reflexivity. }
          destruct X as (es & X). eapply R_closed; [exact X|exact C]. }
        destruct ok; cbn [snd]; [|exact G0].
        eapply R_trans; [exact G0|]. eapply R_trans; [apply R_notify|apply IH; apply N].
      * eapply R_trans; [|apply IH; apply N].
        apply (R_trans _ (emit (set_queues w rest (w_pending w)) [ERecv t r]) _); [|apply R_notify].
        exists [ERecv t r]. split; [reflexivity|]. split; [auto|].
        intros (t0 & r0 & [X|[]] & C0). inversion X; subst. apply N.eqb_neq in C421. congruence.
    + cbn [snd]. rq.
  - eapply R_trans; [apply R_notify|apply IH; exact N].
  - apply IH. apply N.
  - eapply R_trans; [|apply IH; exact N]. rq.
  - destruct N as (Nt & Nf). destruct (w_open w); apply IH; assumption.
  - apply IH. apply N.
  - destruct N.
  - eapply R_trans; [|apply IH; exact N]. rq.
  - destruct (w_last_tls_ok w && negb (w_peer_closed w)); cbn [snd]; [eapply R_trans; [|apply IH; exact N]|]; rq.
  - destruct (w_tls_up w && w_tls_clean w && negb (w_peer_closed w)); cbn [snd]; [eapply R_trans; [|apply IH; exact N]|]; rq.
  - destruct (ctl_disconnect w) as [ok w1] eqn:D.
    destruct (R_ctl_disconnect w) as (G & C). rewrite D in G, C. cbn [snd] in G, C.
    destruct ok; cbn [snd]; [eapply R_trans; [exact G|apply IH; exact N]|exact G].
  - eapply R_trans; [|apply IH; exact N]. rq.
  - destruct (dp_reachable (w_plan w)); cbn [snd]; [eapply R_trans; [|apply IH; exact N]|]; rq.
  - eapply R_trans; [|apply IH; exact N]. rq.
  - destruct (dp_reachable (w_plan w)); cbn [snd]; [eapply R_trans; [|apply IH; exact N]; rq|apply R_refl].
  - destruct (dp_tls_ok (w_plan w)); cbn [snd]; [eapply R_trans; [|apply IH; exact N]|]; rq.
  - destruct (w_data w) as [d|]; [|apply IH; exact N].
    destruct (d_ssl d && negb (dp_shutdown_ok (w_plan w))); cbn [snd]; [rq|].
    eapply R_trans; [|apply IH; exact N]. eapply R_trans; [|apply R_close_data].
    destruct (d_ssl d), g; cbn [app]; rq.
  - destruct (data_recv _ _ _ _ _) as [[ev r] cb'].
    match goal with |- context [set_io ?A ?B] => set (W1 := set_io A B) end.
    assert (G1 : R w W1) by (unfold W1; apply (R_quiet _ _ (map EIo ev)); [reflexivity|apply nr_io|reflexivity]).
    destruct r; cbn [snd]; try exact G1; (eapply R_trans; [exact G1|apply IH; apply N]).
  - destruct (data_recv _ _ _ _ _) as [[ev r] cb'].
    match goal with |- context [emit w ?E] => set (W1 := emit w E) end.
    assert (G1 : R w W1) by (unfold W1; apply (R_quiet _ _ (map EIo ev)); [reflexivity|apply nr_io|reflexivity]).
    destruct r; cbn [snd]; try exact G1; (eapply R_trans; [exact G1|apply IH; apply N]).
  - destruct (data_send _ _ _ _) as [[ev r] cb'].
    match goal with |- context [set_io ?A ?B] => set (W1 := set_io A B) end.
    assert (G1 : R w W1) by (unfold W1; apply (R_quiet _ _ (map EIo ev)); [reflexivity|apply nr_io|reflexivity]).
    destruct r; cbn [snd]; try exact G1; (eapply R_trans; [exact G1|apply IH; apply N]).
  - destruct (io_cb (w_io w)) as [answers|]; [|apply IH; apply N].
    destruct (poll answers) as [a answers']. eapply R_trans; [|apply IH; apply N]. rq.
  - destruct (run body w) as [o w1] eqn:Rn. cbn [snd].
    pose proof (IH w N) as X. rewrite Rn in X. cbn [snd] in X.
    eapply R_trans; [exact X|]. eapply R_trans; [apply R_close_data|]. rq.
Qed.

(* ------------------------------------------------------------------ the operations *)
Lemma ndc_disconnect g : nd MClosed (op_disconnect g).
Proof. unfold op_disconnect, process_command. destruct g; ndt. Qed.

Lemma ndc_logout : nd MClosed op_logout.
Proof. unfold op_logout, process_command. ndt. Qed.

(* what follows the opening of the connection in connect() *)
Lemma ndc_connect_tail l acc : nd MClosed (match l with
   | None => Ret (RvReplies acc)
   | Some (u, pw) => process_login u pw acc (fun acc' => Ret (RvReplies acc')) end).
Proof. destruct l as [[u pw]|]; [apply nd_process_login; intro; exact Logic.I|exact Logic.I]. Qed.

(* every call but connect: a client that is not connected stays not connected; a 421 read during the call leaves the
   client not connected when the call ends (returns or throws) *)
Theorem step_421_disconnects a w : ~ is_connect a -> R w (snd (step w a)).
Proof.
  intro NC.
  assert (ST : forall p i, nd MClosed p -> R w (snd (run p (set_io w i)))).
  { intros p i N. eapply R_trans; [|apply run_R; exact N]. rq. }
  destruct a as [h p l|u pw| |v arg|t|x y|path cb f|uv path ch cb|path names|g|o|o|md|b]; unfold step; cbn [prog_of].
  - destruct NC. exact Logic.I.
  - apply ST. apply nd_login.
  - apply ST. apply ndc_logout.
  - apply ST. apply nd_simple.
  - apply ST. apply nd_set_type.
  - apply ST. apply nd_rename.
  - apply ST. apply nd_download.
  - apply ST. apply nd_upload.
  - apply ST. apply nd_list.
  - apply ST. apply ndc_disconnect.
  - rq.
  - rq.
  - rq.
  - rq.
Qed.

(* connect(): a 421 read during the call - as the greeting, after a 120, as the answer to AUTH TLS or to any login
   command - leaves the client not connected when the call ends *)
Theorem connect_421_disconnects h p l w :
  exists tr, w_trace (snd (step w (AConnect h p l))) = w_trace w ++ tr /\
    (has421 tr -> w_open (snd (step w (AConnect h p l))) = false).
Proof.
  unfold step. cbn [prog_of].
  set (w0 := set_io w (io_of (AConnect h p l))).
  assert (T0 : w_trace w0 = w_trace w) by reflexivity.
  assert (K : forall k, nd MClosed k -> exists tr, w_trace (snd (run (CtlConnect h p k) w0)) = w_trace w ++ tr /\
              (has421 tr -> w_open (snd (run (CtlConnect h p k) w0)) = false)).
  { intros k N. cbn [run].
    match goal with |- context [match w_script ?x with _ => _ end] => set (W0 := x) end.
    assert (X0 : exists e0, w_trace W0 = w_trace w ++ e0 /\ Forall norecv e0).
    { unfold W0. destruct (w_open w0); [exists [ECtl CClose]|exists []]; (split; [cbn [w_trace set_queues set_ctl emit set_trace]; rewrite ?app_nil_r; rewrite T0; reflexivity|nrall]). }
    destruct X0 as (e0 & E0 & F0).
    destruct (w_script W0) as [|s rest]; cbn [snd].
    - exists (e0 ++ [ECtl (CConnect h p false)]). split; [cbn [w_trace emit set_trace]; rewrite E0, <- app_assoc; reflexivity|].
      intro H. exfalso. apply (norecv_no421 (e0 ++ [ECtl (CConnect h p false)])); [apply Forall_app; split; [exact F0|nrall]|exact H].
    - destruct (negb (s_reachable s)); cbn [snd].
      + exists (e0 ++ [ECtl (CConnect h p false)]). split; [cbn [w_trace emit set_trace]; rewrite E0, <- app_assoc; reflexivity|].
        intro H. exfalso. apply (norecv_no421 (e0 ++ [ECtl (CConnect h p false)])); [apply Forall_app; split; [exact F0|nrall]|exact H].
      + match goal with |- context [run k ?W] => set (W1 := W) end.
        destruct (run_R k W1 N) as (tr & E & _ & H).
        exists (e0 ++ [ECtl (CConnect h p true)] ++ tr). split.
        * rewrite E. unfold W1. cbn [w_trace emit set_trace]. rewrite E0, <- !app_assoc. reflexivity.
        * intro X. apply H. destruct (has421_app _ _ X) as [X1|X1]; [destruct (norecv_no421 _ F0 X1)|].
          destruct (has421_app _ _ X1) as [X2|X2]; [|exact X2].
          exfalso. apply (norecv_no421 [ECtl (CConnect h p true)]); [nrall|exact X2]. }
  assert (NB : nd MClosed (Notify (OConnected h p) (Recv (fun g =>
            if code g =? 120 then Recv (fun g2 =>
              if is_negative g2 then Ret (RvReplies [g; g2]) else
              GetCfg (fun cfg => if c_tls cfg then
                 process_raw AUTH_TLS (fun a => if is_negative a then Ret (RvReplies ([g; g2] ++ [a]))
                   else CtlSetSsl true (CtlHandshake (match l with
                     | None => Ret (RvReplies ([g; g2] ++ [a]))
                     | Some (u, pw) => process_login u pw ([g; g2] ++ [a]) (fun acc' => Ret (RvReplies acc')) end)))
               else match l with
                     | None => Ret (RvReplies [g; g2])
                     | Some (u, pw) => process_login u pw [g; g2] (fun acc' => Ret (RvReplies acc')) end))
            else
              if is_negative g then Ret (RvReplies [g]) else
              GetCfg (fun cfg => if c_tls cfg then
                 process_raw AUTH_TLS (fun a => if is_negative a then Ret (RvReplies ([g] ++ [a]))
                   else CtlSetSsl true (CtlHandshake (match l with
                     | None => Ret (RvReplies ([g] ++ [a]))
                     | Some (u, pw) => process_login u pw ([g] ++ [a]) (fun acc' => Ret (RvReplies acc')) end)))
               else match l with
                     | None => Ret (RvReplies [g])
                     | Some (u, pw) => process_login u pw [g] (fun acc' => Ret (RvReplies acc')) end))))).
  { unfold process_raw. cbn [nd]. intro g. destruct (code g =? 120); cbn [nd].
    - intro g2. destruct (is_negative g2); cbn [nd]; [exact Logic.I|]. intro c. destruct (c_tls c); cbn [nd].
      + intro a. destruct (is_negative a); cbn [nd]; [exact Logic.I|apply ndc_connect_tail].
      + apply ndc_connect_tail.
    - destruct (is_negative g); cbn [nd]; [exact Logic.I|]. intro c. destruct (c_tls c); cbn [nd].
      + intro a. destruct (is_negative a); cbn [nd]; [exact Logic.I|apply ndc_connect_tail].
      + apply ndc_connect_tail. }
  unfold op_connect. cbv zeta.
  destruct l as [[u pw]|].
  - cbn [run]. destruct (has_crlf u); cbn [snd].
    + exists []. rewrite app_nil_r. split; [exact T0|]. intros (t & r & [] & _).
    + destruct (has_crlf pw); cbn [snd].
      * exists []. rewrite app_nil_r. split; [exact T0|]. intros (t & r & [] & _).
      * apply (K _ NB).
  - apply (K _ NB).
Qed.

(* non-vacuity: 421 as the completion reply of a download - the call returns its three replies and the client is
   disconnected *)
Definition completion421_script : list session :=
  let say c := mkR [RReply (mkReply c [])] [] false false true no_plan in
  let epsv := mkR [RReply (mkReply 229 [40;124;124;124;53;124;41])] [] false false true (mkDP true true [] DEof true) in
  let retr := mkR [RReply (mkReply 150 []); RReply (mkReply 421 [])] [] false false true (mkDP true true [[1]] DEof true) in
  [mkSess true false true (say 220) [epsv; retr]].

Example completion_421_example :
  let w0 := init_world (mkConfig Passive true TBinary false false) completion421_script in
  let '(os, w) := steps w0 [AConnect [104] 21 None; ADownload [102] None None] in
  os = [OReturn (RvReplies [mkReply 220 []]);
        OReturn (RvReplies [mkReply 229 [40;124;124;124;53;124;41]; mkReply 150 []; mkReply 421 []])] /\
  w_open w = false /\ has421 (w_trace w).
Proof. vm_compute. split; [reflexivity|]. split; [reflexivity|]. exists 2%nat, (mkReply 421 []). split; [auto 30|reflexivity]. Qed.
