(* Stays_Global.v - C07 / C13 over EVERY call but connect and disconnect, every state and every behaviour of the server:
   unless a 421 was read in it, the call leaves the control connection as it found it - a refused command, a refused or
   failed transfer, a reply that never came: the client is still connected afterwards (and a client that was not connected
   is not connected by it). *)
From LibFtp Require Import Bytes Decimal Reply Endpoint DataConn Client Client_Proofs Tls_Global Closing_Global.
Local Open Scope N_scope.

Definition R (w w' : world) : Prop :=
  exists tr, w_trace w' = w_trace w ++ tr /\ (~ has421 tr -> w_open w' = w_open w).

Lemma has421_l a b : has421 a -> has421 (a ++ b).
Proof. intros (t & r & I & C). exists t, r. split; [apply in_or_app; left; exact I|exact C]. Qed.
Lemma has421_r a b : has421 b -> has421 (a ++ b).
Proof. intros (t & r & I & C). exists t, r. split; [apply in_or_app; right; exact I|exact C]. Qed.

Lemma R_refl w : R w w.
Proof. exists []. rewrite app_nil_r. split; [reflexivity|]. intros _. reflexivity. Qed.

Lemma R_trans a b c : R a b -> R b c -> R a c.
Proof.
  intros (t1 & E1 & H1) (t2 & E2 & H2). exists (t1 ++ t2). rewrite E2, E1, app_assoc. split; [reflexivity|].
  intro H. rewrite H2, H1; [reflexivity| |]; intro X; apply H; [apply has421_l|apply has421_r]; exact X.
Qed.

Lemma R_quiet w w' es : w_trace w' = w_trace w ++ es -> Forall norecv es -> w_open w' = w_open w -> R w w'.
Proof.
  intros E F O. exists es. split; [exact E|]. intros _. exact O.
Qed.

Lemma R_421 w w' es : w_trace w' = w_trace w ++ es -> has421 es -> R w w'.
Proof. intros E C. exists es. split; [exact E|]. intro H. destruct (H C). Qed.

Lemma nr_obs obs e : Forall norecv (map (fun o => EObs o e) obs).
Proof. induction obs as [|o obs IH]; cbn; constructor; [exact I|exact IH]. Qed.
Lemma nr_io ev : Forall norecv (map EIo ev).
Proof. induction ev as [|e ev IH]; cbn; constructor; [exact I|exact IH]. Qed.

Lemma R_notify w e : R w (notify w e).
Proof. apply (R_quiet _ _ (map (fun o => EObs o e) (w_obs w))); [reflexivity|apply nr_obs|reflexivity]. Qed.

Ltac nrall := repeat (first [apply Forall_nil | apply Forall_cons; [exact I|]]).
Ltac rq := first
  [ apply (R_quiet _ _ []); [cbn [w_trace emit set_trace set_queues set_io set_data set_cfg set_ctl set_obs release_pending notify];
                            rewrite ?app_nil_r; reflexivity|constructor|reflexivity]
  | (eapply R_quiet; [cbn [w_trace emit set_trace set_queues set_io set_data set_cfg set_ctl set_obs release_pending notify];
                      rewrite <- ?app_assoc; reflexivity|nrall|reflexivity]) ].

Lemma R_do_send w line w' : do_send w line = Some w' -> R w w'.
Proof.
  unfold do_send. destruct (negb _); [discriminate|]. destruct (_ && negb _); [discriminate|].
  set (w1 := notify w (ORequest line)).
  assert (G1 : R w w1) by apply R_notify.
  destruct (w_peer_closed w1); intro H; inversion H; subst; clear H.
  - eapply R_trans; [exact G1|]. rq.
  - eapply R_trans; [exact G1|].
    match goal with |- R w1 (peer_react ?W) => apply (R_trans _ W _) end.
    + rq.
    + match goal with |- R ?W (peer_react ?W) => destruct (peer_react_ctl W) as (A & _);
        apply (R_quiet _ _ []); [rewrite app_nil_r; apply peer_react_trace|constructor|exact A] end.
Qed.

Lemma R_close_data w : R w (close_data w).
Proof.
  destruct (gx_close_data w) as ((tr & E & _) & O & _).
  unfold close_data in *. destruct (w_data w) as [d|]; [|apply R_refl].
  destruct (d_sock d), (d_acc d); cbv zeta in *.
  - apply (R_quiet _ _ [EData DClose; EData DAccClose]); [cbn [w_trace set_data emit set_trace release_pending set_queues]; rewrite <- app_assoc; reflexivity|nrall|reflexivity].
  - apply (R_quiet _ _ [EData DClose]); [reflexivity|nrall|reflexivity].
  - apply (R_quiet _ _ [EData DAccClose]); [reflexivity|nrall|reflexivity].
  - apply (R_quiet _ _ []); [rewrite app_nil_r; reflexivity|constructor|reflexivity].
Qed.

(* programs that neither open nor close the control connection *)
Fixpoint ns (p : prog) : Prop :=
  match p with
  | Ret _ | Throw => True
  | CtlConnect _ _ _ | CtlDisconnect _ => False
  | Recv k => forall r, ns (k r)
  | GetCfg k => forall c, ns (k c)
  | IsOpen k | IsSsl k | Poll k => forall b, ns (k b)
  | PumpIn k | PumpOut k => forall x, ns (k x)
  | PumpInList k => forall t, ns (k t)
  | CheckArg _ k | Send _ _ k | SendRaw _ k | SendAdv _ k | Notify _ k | SetTypeCfg _ k | CtlSetSsl _ k
  | CtlHandshake k | CtlTlsShutdown k | DNew k | DConnect _ _ k | DListenP k | DAccept k | DHandshakeP k
  | DDisconnect _ k | Scope k => ns k
  end.

Lemma run_R : forall p w, ns p -> R w (snd (run p w)).
Proof.
  induction p as [v| |a k IH|verb arg k IH|line k IH|a k IH|k IH|e k IH|k IH|t k IH|k IH|k IH|h pt k IH|on k IH|k IH|k IH|k IH
                 |k IH|ip port k IH|k IH|k IH|k IH|g k IH|k IH|k IH|k IH|k IH|body IH]; intros w N; cbn [run]; cbn [ns] in N.
  - apply R_refl.
  - apply R_refl.
  - destruct (has_crlf a); [apply R_refl|apply IH; exact N].
  - destruct arg as [a|].
    + destruct (has_crlf a); [apply R_refl|].
      destruct (do_send w _) as [w'|] eqn:E; cbn [snd]; [eapply R_trans; [eapply R_do_send; eauto|apply IH; exact N]|apply R_notify].
    + destruct (do_send w _) as [w'|] eqn:E; cbn [snd]; [eapply R_trans; [eapply R_do_send; eauto|apply IH; exact N]|apply R_notify].
  - destruct (do_send w _) as [w'|] eqn:E; cbn [snd]; [eapply R_trans; [eapply R_do_send; eauto|apply IH; exact N]|apply R_notify].
  - destruct (match a with AdvEprt => _ | AdvPort => _ end) as [line|]; [|apply R_refl].
    destruct (do_send w _) as [w'|] eqn:E; cbn [snd]; [eapply R_trans; [eapply R_do_send; eauto|apply IH; exact N]|apply R_notify].
  - (* Recv *)
    destruct (negb (w_open w)); [apply R_refl|].
    destruct (w_backlog w) as [|[t [r|]] rest].
    + destruct (w_peer_closed w); apply R_refl.
    + destruct (code r =? 421) eqn:C421.
      * set (w1 := emit (set_queues w rest (w_pending w)) [ERecv t r]).
        assert (H421 : has421 [ERecv t r]) by (exists t, r; split; [left; reflexivity|apply N.eqb_eq; exact C421]).
        destruct (ctl_disconnect w1) as [ok w2] eqn:D.
        pose proof (ext_ctl_disconnect w1) as (es & X). rewrite D in X. cbn [snd] in X.
        assert (G0 : R w w2).
        { apply (R_421 _ _ ([ERecv t r] ++ es)); [rewrite X; unfold w1; cbn [w_trace emit set_trace set_queues]; rewrite <- app_assoc; reflexivity|].
          apply has421_l. exact H421. }
        destruct ok; cbn [snd]; [|exact G0].
        destruct (IH r (notify w2 (OReply r)) (N r)) as (t3 & E3 & _).
        apply (R_421 _ _ (([ERecv t r] ++ es) ++ map (fun o => EObs o (OReply r)) (w_obs w2) ++ t3)).
        -- rewrite E3. cbn [notify w_trace emit set_trace]. rewrite X. unfold w1. cbn [w_trace emit set_trace set_queues].
           rewrite <- !app_assoc. reflexivity.
        -- apply has421_l. apply has421_l. exact H421.
      * eapply R_trans; [|apply IH; apply N].
        apply (R_trans _ (emit (set_queues w rest (w_pending w)) [ERecv t r]) _); [|apply R_notify].
        exists [ERecv t r]. split; [reflexivity|]. intros _. reflexivity.
    + cbn [snd]. rq.
  - eapply R_trans; [apply R_notify|apply IH; exact N].
  - apply IH. apply N.
  - eapply R_trans; [|apply IH; exact N]. rq.
  - apply IH. apply N.
  - apply IH. apply N.
  - destruct N.
  - eapply R_trans; [|apply IH; exact N]. rq.
  - destruct (w_last_tls_ok w && negb (w_peer_closed w)); cbn [snd]; [eapply R_trans; [|apply IH; exact N]|]; rq.
  - destruct (w_tls_up w && w_tls_clean w && negb (w_peer_closed w)); cbn [snd]; [eapply R_trans; [|apply IH; exact N]|]; rq.
  - destruct N.
  - eapply R_trans; [|apply IH; exact N]. rq.
  - destruct (dp_reachable (w_plan w)); cbn [snd]; [eapply R_trans; [|apply IH; exact N]|]; rq.
  - eapply R_trans; [|apply IH; exact N]. rq.
  - destruct (dp_reachable (w_plan w)); cbn [snd]; [eapply R_trans; [|apply IH; exact N]; rq|apply R_refl].
  - destruct (dp_tls_ok (w_plan w)); cbn [snd]; [eapply R_trans; [|apply IH; exact N]|]; rq.
  - destruct (w_data w) as [d|]; [|apply IH; exact N].
    destruct (d_ssl d && negb (dp_shutdown_ok (w_plan w))); cbn [snd]; [rq|].
    eapply R_trans; [|apply IH; exact N]. eapply R_trans; [|apply R_close_data].
    destruct (d_ssl d), g; cbn [app]; rq.
  - destruct (data_recv _ _ _ _ _) as [[ev r] cb'].
    match goal with |- context [set_io ?A ?B] => set (W1 := set_io A B) end.
    assert (G1 : R w W1) by (unfold W1; apply (R_quiet _ _ (map EIo ev)); [reflexivity|apply nr_io|reflexivity]).
    destruct r; cbn [snd]; try exact G1; (eapply R_trans; [exact G1|apply IH; apply N]).
  - destruct (data_recv _ _ _ _ _) as [[ev r] cb'].
    match goal with |- context [emit w ?E] => set (W1 := emit w E) end.
    assert (G1 : R w W1) by (unfold W1; apply (R_quiet _ _ (map EIo ev)); [reflexivity|apply nr_io|reflexivity]).
    destruct r; cbn [snd]; try exact G1; (eapply R_trans; [exact G1|apply IH; apply N]).
  - destruct (data_send _ _ _ _) as [[ev r] cb'].
    match goal with |- context [set_io ?A ?B] => set (W1 := set_io A B) end.
    assert (G1 : R w W1) by (unfold W1; apply (R_quiet _ _ (map EIo ev)); [reflexivity|apply nr_io|reflexivity]).
    destruct r; cbn [snd]; try exact G1; (eapply R_trans; [exact G1|apply IH; apply N]).
  - destruct (io_cb (w_io w)) as [answers|]; [|apply IH; apply N].
    destruct (poll answers) as [a answers']. eapply R_trans; [|apply IH; apply N]. rq.
  - destruct (run body w) as [o w1] eqn:Rn. cbn [snd].
    pose proof (IH w N) as X. rewrite Rn in X. cbn [snd] in X.
    eapply R_trans; [exact X|]. eapply R_trans; [apply R_close_data|]. rq.
Qed.

(* ------------------------------------------------------------------ the operations *)
Ltac nst := repeat (cbn [ns]; first
  [ exact Logic.I | intro
  | match goal with
    | |- ns (if ?b then _ else _) => destruct b
    | |- ns (match ?x with _ => _ end) => destruct x
    | |- ns (let _ := _ in _) => cbv zeta
    end ]).

Lemma ns_process_login u pw acc k : (forall a, ns (k a)) -> ns (process_login u pw acc k).
Proof. intro K. unfold process_login, process_command, process_raw. nst; apply K. Qed.

Lemma ns_cdc verb arg acc k_ok k_none : (forall a, ns (k_ok a)) -> (forall a, ns (k_none a)) ->
  ns (create_data_connection verb arg acc k_ok k_none).
Proof.
  intros K1 K2. unfold create_data_connection, process_command. cbn [ns]. intro c.
  destruct (c_mode c), (c_rfc2428 c); nst; first [apply K1 | apply K2].
Qed.

Lemma ns_finish acc : ns (finish_transfer acc).
Proof. unfold finish_transfer, process_abort, process_command. nst. Qed.

(* the calls this theorem is about: all but connect and disconnect *)
Definition keeps (a : api) : Prop := match a with AConnect _ _ _ | ADisconnect _ => False | _ => True end.

Theorem step_leaves_the_connection_as_it_was a w : keeps a ->
  exists tr, w_trace (snd (step w a)) = w_trace w ++ tr /\ (~ has421 tr -> w_open (snd (step w a)) = w_open w).
Proof.
  intro KC. change (R w (snd (step w a))).
  assert (ST : forall p i, ns p -> R w (snd (run p (set_io w i)))).
  { intros p i N. eapply R_trans; [|apply run_R; exact N]. rq. }
  destruct a as [h p l|u pw| |v arg|t|x y|path cb f|uv path ch cb|path names|g|o|o|md|b]; try (destruct KC; fail);
    unfold step; cbn [prog_of].
  - apply ST. unfold op_login. apply ns_process_login. intros; exact Logic.I.
  - apply ST. unfold op_logout, process_command. nst.
  - apply ST. unfold op_simple, process_command. nst.
  - apply ST. unfold op_set_type, process_command. nst.
  - apply ST. unfold op_rename, process_command. nst.
  - apply ST. unfold op_download. cbn [ns]. apply ns_cdc; [|intros; exact Logic.I]. intro a. cbn [ns]. intro x. apply ns_finish.
  - apply ST. unfold op_upload. cbn [ns]. apply ns_cdc; [|intros; exact Logic.I]. intro a. cbn [ns]. intro x. apply ns_finish.
  - apply ST. unfold op_list. cbn [ns]. apply ns_cdc; [|intros; exact Logic.I]. nst.
  - rq.
  - rq.
  - rq.
  - rq.
Qed.

(* non-vacuity: a download refused at RETR (550) and one whose data connection cannot be opened: the client stays connected *)
Definition stays_script : list session :=
  let say c := mkR [RReply (mkReply c [])] [] false false true no_plan in
  let epsv := mkR [RReply (mkReply 229 [40;124;124;124;53;124;41])] [] false false true (mkDP true true [] DEof true) in
  let dead := mkR [RReply (mkReply 229 [40;124;124;124;53;124;41])] [] false false true (mkDP false true [] DEof true) in
  [mkSess true false true (say 220) [epsv; say 550; dead]].

Example stays_example :
  let w0 := init_world (mkConfig Passive true TBinary false false) stays_script in
  let w1 := snd (steps w0 [AConnect [104] 21 None]) in
  let w2 := snd (step w1 (ADownload [102] None None)) in
  let w3 := snd (step w2 (ADownload [103] None None)) in
  w_open w1 = true /\ w_open w2 = true /\ fst (step w2 (ADownload [103] None None)) = OThrow /\ w_open w3 = true.
Proof. vm_compute. repeat split. Qed.
